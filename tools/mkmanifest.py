#!/usr/bin/env python3
"""Regenerates /verif/MANIFEST.json from the table below (single source of truth for the interface)."""
import json, os
VERIF = os.path.dirname(os.path.dirname(os.path.abspath(__file__)))
props = [json.loads(l) for l in open(os.path.join(VERIF, "properties.jsonl"))]

# id -> (technique, level text, level note, design ref)
CHECKS = {
 "C01": ("stateless exhaustive enumeration of (encryption path, decryption path) pairs on the real code",
         "Bounded exhaustive exploration: every pair of public encryption/decryption paths per mode family, over every configuration of the tier (harness-owned ciphers of block size 1..255 and parallel width 1..16, plus real ciphers in the thorough tier), IVs, data patterns and every length up to the bound; oracle dec(enc(m)) = m and length preservation. Paths include every call form (in place / b2b / inout, single-block entry points, six shapes of caller-supplied closures through *_with_backend / process_with_backend, write_keystream_blocks), form cycles, and one object used in two ways (block-level calls, then the consuming padded call). Settles the round-trip quantifier within the stated configuration/length bounds.",
         "Trusted: the harness cipher family (self-tested bijection), the thin adapters, data-oblivious control flow of the subject (three data patterns per shape).", "3/C01"),
 "C02": ("stateless exhaustive enumeration of feeding schedules against a reference recurrence",
         "Every (mode, direction, configuration, key, IV, data, n, schedule, call form) within the bound is executed on the real types; output and exported chaining value are compared with an independent reference recurrence after every call (schedules: single-block calls, one call, every two-way split, empty calls, caller-supplied closures of six shapes, calls of 33/65/257 blocks); decryptors are fed ciphertext nobody produced.",
         "Trusted: reference models (validated against the published vectors at start-up), harness cipher, adapters.", "3/C02"),
 "C03": ("stateless exhaustive enumeration of front-ends, byte lengths and chunkings against reference recurrences, with a backend-call monitor",
         "Every front-end of CFB, CFB-8 and OFB x every byte length up to the bound x whole / unit-wise / two-way-split / closure / form-cycle chunkings x call form is executed and compared with the reference recurrence, as is 'block-level calls, then the consuming one-shot call on the same object'; the harness cipher's call counter shows that the decryption direction is never used while data is processed.",
         "Trusted: reference models (validated against published vectors), harness cipher call counter, adapters.", "3/C03"),
 "C05": ("stateless exhaustive enumeration of lengths and call forms against the SP 800-38A-Addendum reference",
         "All six CTS types x configurations x IVs x data x every length class up to (2*PAR+3) blocks x call form: encryption equals the Addendum reference, decryption inverts it, decryption of arbitrary bytes equals the reference decryption.",
         "Trusted: CTS reference (validated against RFC 3962 and STB 34.101.31 vectors), harness cipher, adapters.", "3/C05"),
 "C12": ("stateless exhaustive enumeration of output pre-fill alphabets, in place vs buffer-to-buffer",
         "Every operation offered in both forms x configuration x direction x length x split shape x six output pre-fills; bytes and chaining state must equal the in-place run.",
         "Trusted: harness cipher with SIMD-like read-all-then-write-all batches, adapters.", "3/C12"),
 "C13": ("stateless exhaustive enumeration of bad-length classes with twin-object state comparison, plus a panic sweep under catch_unwind",
         "Every fallible entry point x every bad-length class returns Err and leaves buffers and object state untouched; every entry point x every length 0..Lmax, extreme counter positions and every exported buffered-CFB position run without unwinding, with overflow checks and debug assertions on.",
         "Trusted: adapters; domain restrictions listed in DESIGN.md section 5.3 (negative seek positions, wrappers documented to panic).", "3/C13"),
 "C14": ("stateless exhaustive pairwise comparison of front-ends on the real code",
         "Every listed pair of front-ends (buffered / block-level / one-shot CFB; OFB as encryptor, decryptor, core, byte stream; CTR and BelT core vs byte level; CTS on whole blocks vs plain CBC / raw E; constructors from key bytes / slices vs keyed cipher, compared well past the first call: parallel path, single block, clone, positions, seeks; a core used directly and then wrapped with from_core) is compared byte for byte over configurations x IVs x data x lengths.",
         "Trusted: harness cipher, adapters.", "3/C14"),
}

CHECKS.update({
 "C04": ("stateless exhaustive enumeration over carry windows with a backend monitor (counter block fed to E); thorough: complete sweep of all 2^32-1 indices for the 32-bit flavours",
         "Six flavours x configurations x IVs with the counter field on every carry boundary x block indices in windows around every 256^k and the end x batch sizes generated in one call x four ways of reaching the index (seek on a fresh core, backward seek, generation, forward seek after a first block); the block the harness cipher received must equal layout(IV,i) computed with an independent byte-wise carry chain, and output = input xor E(layout). Thorough sweeps every index of Ctr32BE/LE.",
         "Trusted: harness cipher call log, reference layout routine (validated on AES-CTR and GOST vectors). 64/128-bit flavours: carry windows only (stated).", "3/C04"),
 "C06": ("stateless exhaustive enumeration with a backend monitor, IVs placed on both sides of the 2^128 wrap",
         "BelT-CTR over every 16-byte configuration (incl. the real BelT cipher) x IVs chosen so that E(IV) sits within W of 2^128 and of 0 x offsets x lengths x call forms; output, the exact sequence of counter blocks fed to E, involution and exported state are compared with the reference.",
         "Trusted: reference (validated against the STB 34.101.31 vector), harness cipher log.", "3/C06"),
 "C07": ("all compositions (stateless) + deviation-bounded schedules + merged BFS with a singleton-state-per-offset invariant, on the real code",
         "Every block-oriented entry point: all compositions of n <= 7/9 blocks x call kind, every <= 2/3 split deviations on 4*PAR+3 blocks, merged BFS over (call size, call form) to 24/64 blocks, every ordered pair (thorough: triple) of (size, form) statelessly, single calls up to 257/1025 blocks, and identical inputs under every parallel width (incl. CTS one-shots); bytes and chaining state after every call equal the one-block-at-a-time run / reference.",
         "Trusted: harness cipher whose permutation is width-independent and whose batch entry points read all inputs before writing; canonical key = (offset, exported state, two-block probe).", "3/C07"),
 "C08": ("all compositions with empty pieces (stateless) + deviation-bounded cuts + merged BFS over piece lengths, on the real code",
         "Byte-level stream ciphers and buffered CFB: all compositions of short strings (with empty pieces), every <= 2/3 cut deviations on 3*bs+2 bytes, merged BFS over piece lengths with the singleton-state invariant; one-shot CFB/CFB-8 prefix preservation for every pair of lengths and two continuations.",
         "Trusted: reference keystream / recurrences; canonical key = (offset, 1.5-block probe).", "3/C08"),
 "C09": ("merged BFS with a reinstantiate (export/import) action and the singleton-state invariant",
         "Every IvState type and both buffered CFB types: BFS over {feed through every call form, export->fresh instance, clone, set_block_pos} with <= 3 cuts, states behind a cut expanded in their own right (history tag outside the confluence value); every history continues exactly like the uninterrupted run, the exported value equals the reference public chaining value, encryptor and decryptor export equal values; every byte cut point of buffered CFB.",
         "Trusted: reference chaining values; canonical key = (offset, exported value, probe).", "3/C09"),
 "C10": ("merged BFS of the seek/position machine from initial and post-seek states against a random-access reference",
         "Seven seekable ciphers x configurations x IVs: BFS to depth 3 (quick) / 4 (thorough) over seeks of five integer types to a boundary alphabet of positions and data calls of boundary lengths; bytes, try_current_pos of all five types, get_block_pos, remaining_blocks and the counter blocks fed to E are checked on every transition.",
         "Trusted: reference position kept as (block, byte); tolerated try_current_pos window documented.", "3/C10"),
 "C11": ("merged BFS of the exhaustion machine from states within W blocks of the limit, with a counter-reuse monitor",
         "Same machine started at limit-k (core positioning + from_core, empty and partially consumed buffer) and fresh; requests ending before/at/after the limit, seeks around and past the end, try_apply_keystream_partial; success iff the request fits, failures leave data and position untouched, remaining_blocks exact, no counter block used for two indices. Three findings that originate in the cipher dependency are listed in known_findings.json.",
         "Trusted: reference limit arithmetic in (block, byte); harness cipher log as reuse monitor.", "3/C11"),
 "C15": ("stateless exhaustive enumeration of perturbation positions and differences against the reference and the prescribed difference shape",
         "Every mode x configuration x position x difference (all single-bit flips for small units): decryption of the perturbed ciphertext equals the reference exactly and the difference to the unperturbed plaintext has the support the definition prescribes; causality both directions; keystream independence of data; backend call shapes equal across data.",
         "Trusted: non-zero claims only where bijectivity guarantees them (coincidences counted).", "3/C15"),
 "C16": ("stateless exhaustive enumeration of interleavings of histories on an original, its clone and a third instance",
         "Every object kind: all h1 (<= 2/3 ops), clone, all h2/h3 (<= 2 ops) and every interleaving, a differently keyed third instance stepping in between; each handle equals a fresh replay; determinism; dropping the clone leaves the original intact; clone_from into fresh and used instances; an extended operation alphabet (all call forms) at depth 1; a sequential part where a NEW instance created after another instance's history (other key / other IV / same) must match the reference model; source scan for hidden shared state recorded.",
         "Trusted: call-granular exploration (no hidden intra-call shared state; scan result in evidence).", "3/C16"),
 "C17": ("explicit-state exploration of short histories with Debug text as an invariant and drop as a terminal transition (zeroize build)",
         "Every object kind x 2 keys x 3 IVs x histories to depth 3/4 over the extended operation alphabet (every call form, near-end positioning): one Debug string per type ({:?} and {:#?}); with the repo crates built with zeroize, drop_in_place in zeroed heap storage and a scan for 8-byte windows of IV / exported state / feedback / counters / buffered keystream (a window counts only if three scans out of three find it). The wrapper's buffer_data Debug field (cipher crate) is a known finding.",
         "Trusted: harness cipher laid out without padding; raw read of the dropped object's storage.", "3/C17"),
})
PENDING_REASON = "check not built yet (work in progress; see DESIGN.md section 3)"

checks, na = [], []
for p in props:
    pid = p["id"]
    if pid in CHECKS:
        tech, text, note, ref = CHECKS[pid]
        checks.append({
            "property_id": pid,
            "quick_cmd": f"./check {pid} --tier quick",
            "thorough_cmd": f"./check {pid} --tier thorough",
            "evidence_file": f"/verif/evidence/{pid}.json",
            "replay_cmd_template": "./check replay {path}",
            "engine": "mc",
            "level_claimed": {"category": "model_checking", "text": text, "design_ref": "DESIGN.md section " + ref},
            "level_note": note,
            "technique": tech,
        })
    else:
        na.append({"property_id": pid, "reason": PENDING_REASON})
m = {
 "version": 1,
 "setup_cmd": "./check setup",
 "hooks": {"guard": "block_modes_verif",
           "enable": "no hooks are installed: every observation is made through the public API and a harness-owned cipher (guard name reserved: RUSTFLAGS=--cfg block_modes_verif)",
           "baseline_off_cmd": "cd /repo && cargo test --workspace --no-fail-fast --offline",
           "source_commits": [], "add_only": True},
 "engines": [{"name": "mc", "path": "/verif/mc",
              "serves_properties": sorted(CHECKS),
              "kind_free_text": "purpose-built explicit-state / stateless explorer in Rust that drives the real block-modes types (path dependencies on /repo) in lockstep with reference models; stateless exhaustive, deviation-bounded and merged-BFS disciplines; replayable API-level traces"}],
 "checks": checks,
 "notes": "All checks rebuild the harness against /repo's current working tree (cargo, offline). Exit 0 held / 1 violation / 2 machinery. known_findings.json lists known and fixed findings.",
 "not_applicable": na,
}
json.dump(m, open(os.path.join(VERIF, "MANIFEST.json"), "w"), indent=1)
print("checks:", [c["property_id"] for c in checks], "pending:", [n["property_id"] for n in na])
