#!/usr/bin/env python3
"""Regenerates /verif/MANIFEST.json from the table below (single source of truth for the interface)."""
import json, os
VERIF = os.path.dirname(os.path.dirname(os.path.abspath(__file__)))
props = [json.loads(l) for l in open(os.path.join(VERIF, "properties.jsonl"))]

# id -> (technique, level text, level note, design ref)
CHECKS = {
 "C01": ("stateless exhaustive enumeration of (encryption path, decryption path) pairs on the real code",
         "Bounded exhaustive exploration: every pair of public encryption/decryption paths per mode family, over every configuration of the tier (harness-owned ciphers of block size 1..255 and parallel width 1..16, plus real ciphers in the thorough tier), IVs, data patterns and every length up to the bound; oracle dec(enc(m)) = m and length preservation. Settles the round-trip quantifier within the stated configuration/length bounds.",
         "Trusted: the harness cipher family (self-tested bijection), the thin adapters, data-oblivious control flow of the subject (three data patterns per shape).", "3/C01"),
 "C02": ("stateless exhaustive enumeration of feeding schedules against a reference recurrence",
         "Every (mode, direction, configuration, key, IV, data, n, schedule, call form) within the bound is executed on the real types; output and exported chaining value are compared with an independent reference recurrence after every call; decryptors are fed ciphertext nobody produced.",
         "Trusted: reference models (validated against the published vectors at start-up), harness cipher, adapters.", "3/C02"),
 "C03": ("stateless exhaustive enumeration of front-ends, byte lengths and chunkings against reference recurrences, with a backend-call monitor",
         "Every front-end of CFB, CFB-8 and OFB x every byte length up to the bound x whole / unit-wise / two-way-split chunkings x call form is executed and compared with the reference recurrence; the harness cipher's call counter shows that the decryption direction is never used while data is processed.",
         "Trusted: reference models (validated against published vectors), harness cipher call counter, adapters.", "3/C03"),
 "C05": ("stateless exhaustive enumeration of lengths and call forms against the SP 800-38A-Addendum reference",
         "All six CTS types x configurations x IVs x data x every length class up to (2*PAR+3) blocks x call form: encryption equals the Addendum reference, decryption inverts it, decryption of arbitrary bytes equals the reference decryption.",
         "Trusted: CTS reference (validated against RFC 3962 and STB 34.101.31 vectors), harness cipher, adapters.", "3/C05"),
 "C12": ("stateless exhaustive enumeration of output pre-fill alphabets, in place vs buffer-to-buffer",
         "Every operation offered in both forms x configuration x direction x length x split shape x six output pre-fills; bytes and chaining state must equal the in-place run.",
         "Trusted: harness cipher with SIMD-like read-all-then-write-all batches, adapters.", "3/C12"),
 "C13": ("stateless exhaustive enumeration of bad-length classes with twin-object state comparison, plus a panic sweep under catch_unwind",
         "Every fallible entry point x every bad-length class returns Err and leaves buffers and object state untouched; every entry point x every length 0..Lmax, extreme counter positions and every exported buffered-CFB position run without unwinding, with overflow checks and debug assertions on.",
         "Trusted: adapters; domain restrictions listed in DESIGN.md section 5.3 (negative seek positions, wrappers documented to panic).", "3/C13"),
 "C14": ("stateless exhaustive pairwise comparison of front-ends on the real code",
         "Every listed pair of front-ends (buffered / block-level / one-shot CFB; OFB as encryptor, decryptor, core, byte stream; CTR and BelT core vs byte level; CTS on whole blocks vs plain CBC / raw E; constructors from key bytes vs keyed cipher) is compared byte for byte over configurations x IVs x data x lengths.",
         "Trusted: harness cipher, adapters.", "3/C14"),
}
PENDING_REASON = "check not built yet (work in progress; see DESIGN.md section 3)"

checks, na = [], []
for p in props:
    pid = p["id"]
    if pid in CHECKS:
        tech, text, note, ref = CHECKS[pid]
        checks.append({
            "property_id": pid,
            "quick_cmd": f"./check {pid} --tier quick",
            "thorough_cmd": f"./check {pid} --tier thorough",
            "evidence_file": f"/verif/evidence/{pid}.json",
            "replay_cmd_template": "./check replay {path}",
            "engine": "mc",
            "level_claimed": {"category": "model_checking", "text": text, "design_ref": "DESIGN.md section " + ref},
            "level_note": note,
            "technique": tech,
        })
    else:
        na.append({"property_id": pid, "reason": PENDING_REASON})
m = {
 "version": 1,
 "setup_cmd": "./check setup",
 "hooks": {"guard": "block_modes_verif",
           "enable": "no hooks are installed: every observation is made through the public API and a harness-owned cipher (guard name reserved: RUSTFLAGS=--cfg block_modes_verif)",
           "baseline_off_cmd": "cd /repo && cargo test --workspace --no-fail-fast --offline",
           "source_commits": [], "add_only": True},
 "engines": [{"name": "mc", "path": "/verif/mc",
              "serves_properties": sorted(CHECKS),
              "kind_free_text": "purpose-built explicit-state / stateless explorer in Rust that drives the real block-modes types (path dependencies on /repo) in lockstep with reference models; stateless exhaustive, deviation-bounded and merged-BFS disciplines; replayable API-level traces"}],
 "checks": checks,
 "notes": "All checks rebuild the harness against /repo's current working tree (cargo, offline). Exit 0 held / 1 violation / 2 machinery. known_findings.json lists known and fixed findings.",
 "not_applicable": na,
}
json.dump(m, open(os.path.join(VERIF, "MANIFEST.json"), "w"), indent=1)
print("checks:", [c["property_id"] for c in checks], "pending:", [n["property_id"] for n in na])
