#!/usr/bin/env python3
"""./check selftest [names...] — demonstrate detection, not just silence.

For every hand-made mutant in /verif/mutants/*.patch and every kept sub-agent change in
/verif/seeded/<id>/patch.diff: apply it to /repo (git apply), run the repository's own test suite
(must still pass — otherwise the mutant is reported as 'unrealistic'), run the quick check of every
property it is expected to break (must exit 1 with a VIOLATION line), and undo it (git checkout).
Nothing is ever committed to /repo.  Not a registered command: it edits /repo while it runs.

Options: --no-suite (skip the repository suite), --all-checks (run all 17 quick checks per mutant and
report which ones fire).
"""
import json, os, subprocess, sys, time

VERIF = os.path.dirname(os.path.dirname(os.path.abspath(__file__)))
REPO = "/repo"
ALL = ["C%02d" % i for i in range(1, 18)]

# hand-made mutants: name -> properties whose quick check must report it
EXPECT = {
    "cbc-dec-par-chaining-from-first-block": ["C02", "C07"],
    "pcbc-enc-reads-output-side": ["C12"],
    "cfb-dec-par-chaining-from-first-block": ["C07"],
    "belt-set-block-pos-relative": ["C10"],
    "belt-remaining-ignores-s-init": ["C11"],
    "ctr128le-counter-in-last-chunk": ["C04"],
    "ctr-clone-rebuilds-nonce": ["C16"],
    "pcbc-dec-drop-does-not-zeroize": ["C17"],
    "ofb-debug-prints-iv": ["C17"],
    "ecbcs2-decrypt-length-gate-only-empty": ["C13"],
    "cfb8-enc-shift-register-capped-at-16": ["C03", "C01"],
    "cbc-xor-first-16-bytes-only": ["C02"],
    "cbccs2-enc-swaps-whole-blocks-when-more-than-three": ["C05", "C14"],
    "ctr64be-nonce-chunk-to-be-bytes": ["C04"],
    "bufenc-short-path-includes-block-end": ["C08", "C09"],
}

def sh(cmd, **kw):
    return subprocess.run(cmd, stdout=subprocess.PIPE, stderr=subprocess.STDOUT, text=True, **kw)

def clean_repo():
    r = sh(["git", "-C", REPO, "status", "--porcelain", "--untracked-files=no"])
    return r.stdout.strip() == ""

def suite_passes():
    env = dict(os.environ, CARGO_NET_OFFLINE="true", CARGO_TARGET_DIR="/tmp/selftest-repo-target")
    r = sh(["cargo", "test", "--workspace", "--no-fail-fast", "--offline"], cwd=REPO, env=env)
    ok = r.returncode == 0
    return ok, r.stdout[-1500:]

def run_check(prop):
    os.makedirs("/tmp/selftest-evidence", exist_ok=True)
    r = sh([os.path.join(VERIF, "check"), prop, "--tier", "quick"], cwd=VERIF, env=dict(os.environ, VERIF_EVIDENCE_DIR="/tmp/selftest-evidence"))
    fps = [l.strip() for l in r.stdout.splitlines() if l.strip().startswith("fingerprint ")]
    return r.returncode, fps, r.stdout[-800:]

def collect(names):
    items = []
    mdir = os.path.join(VERIF, "mutants")
    for f in sorted(os.listdir(mdir)) if os.path.isdir(mdir) else []:
        if f.endswith(".patch"):
            n = f[:-6]
            items.append((n, os.path.join(mdir, f), EXPECT.get(n, [])))
    sdir = os.path.join(VERIF, "seeded")
    for d in sorted(os.listdir(sdir)) if os.path.isdir(sdir) else []:
        meta = os.path.join(sdir, d, "meta.json")
        patch = os.path.join(sdir, d, "patch.diff")
        if os.path.exists(meta) and os.path.exists(patch):
            m = json.load(open(meta))
            # a change recorded as not detected (see its meta.json note and DESIGN.md) is still applied and run, but nothing is expected of it
            items.append(("seeded/" + d, patch, [] if m.get("not_detected") else (m.get("detected_by_quick") or [m["property"]])))
    if names:
        items = [i for i in items if any(n in i[0] for n in names)]
    return items

def main(argv):
    no_suite = "--no-suite" in argv
    all_checks = "--all-checks" in argv
    names = [a for a in argv if not a.startswith("--")]
    if not clean_repo():
        sys.stderr.write("MACHINERY: /repo has uncommitted changes to tracked files; refusing to run the self-test\n")
        return 2
    rows, bad = [], 0
    for name, patch, props in collect(names):
        t = time.time()
        a = sh(["git", "-C", REPO, "apply", patch])
        if a.returncode != 0:
            rows.append((name, "PATCH DOES NOT APPLY", a.stdout.strip()[:200]))
            bad += 1
            continue
        try:
            suite = "skipped"
            if not no_suite:
                ok, tail = suite_passes()
                suite = "passes" if ok else "FAILS (unrealistic mutant)"
            fired, missed = [], []
            for p in (ALL if all_checks else props):
                rc, fps, tail = run_check(p)
                if rc == 1:
                    fired.append(p + "[" + ";".join(f.split(" ")[1] for f in fps[:2]) + "]")
                elif rc == 0:
                    if p in props:
                        missed.append(p)
                else:
                    missed.append(p + "(exit %d)" % rc)
            if missed:
                bad += 1
            rows.append((name, "suite " + suite, "caught by " + (", ".join(fired) or "-") + ("   MISSED by " + ", ".join(missed) if missed else "") + "   (%.0fs)" % (time.time() - t)))
        finally:
            sh(["git", "-C", REPO, "checkout", "--", "."])
    for r in rows:
        print(" | ".join(r))
    assert clean_repo()
    # leave the harness built against the clean tree again
    sh([os.path.join(VERIF, "check"), "setup"], cwd=VERIF)
    sh(["rm", "-rf", "/tmp/selftest-repo-target", "/tmp/selftest-evidence"])
    print("self-test: %d mutants, %d not (fully) detected" % (len(rows), bad))
    return 0 if bad == 0 else 1

if __name__ == "__main__":
    sys.exit(main(sys.argv[1:]))
