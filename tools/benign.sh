#!/bin/bash
# benign.sh <patch> : apply a behaviour-preserving refactor to /repo, run every quick check (all must exit 0), revert
patch=$1
git -C /repo apply $patch || { echo "PATCH DOES NOT APPLY"; exit 2; }
bad=0
export VERIF_EVIDENCE_DIR=/tmp/benign-evidence; mkdir -p $VERIF_EVIDENCE_DIR
for p in C01 C02 C03 C04 C05 C06 C07 C08 C09 C10 C11 C12 C13 C14 C15 C16 C17; do
  out=$(/verif/check $p 2>&1); rc=$?
  if [ $rc != 0 ]; then bad=1; echo "ALARM $p exit=$rc"; echo "$out" | grep -E "fingerprint|MACHINERY" | head -4 | cut -c1-300; fi
done
git -C /repo checkout -- .; git -C /repo clean -fdq -- . 2>/dev/null
rm -rf /tmp/benign-evidence
[ $bad = 0 ] && echo "NO ALARM for $patch"
