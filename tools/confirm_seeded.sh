#!/bin/bash
# confirm_seeded.sh <name> <agent-worktree> : re-verify a sub-agent's change in a fresh scratch worktree
# (suite passes with the change, demo fails with it and passes without it), then store it under /verif/seeded/<name>/
set -u
name=$1; wt=$2; extra=${3:-}
scratch=/tmp/confirm/$name
export CARGO_NET_OFFLINE=true CARGO_TARGET_DIR=/tmp/confirm-target
rm -rf $scratch; git -C /repo worktree prune; git -C /repo worktree add -q --detach $scratch HEAD || exit 2
demo=$(cd $wt && git status --short | grep '^??' | awk '{print $2}' | grep 'tests/.*\.rs$' | head -1)
crate=$(echo $demo | cut -d/ -f1)
tname=$(basename $demo .rs)
cd $scratch
git apply $wt/seeded.patch || { echo "PATCH DOES NOT APPLY"; exit 2; }
suite=$(cargo test --workspace --no-fail-fast --offline 2>&1 | grep -E "^test result" | awk '{p+=$4; f+=$6} END {print p" passed "f" failed"}')
cp $wt/$demo $scratch/$demo
cargo test -p $crate --offline $extra --test $tname >/tmp/confirm/$name.with.log 2>&1; with=$?
git checkout -q -- .
cargo test -p $crate --offline $extra --test $tname >/tmp/confirm/$name.without.log 2>&1; without=$?
echo "$name: suite with change: $suite | demo with change exit=$with (want !=0) | demo without change exit=$without (want 0)"
if [ "$with" != 0 ] && [ "$without" = 0 ] && echo "$suite" | grep -q " 0 failed"; then
  mkdir -p /verif/seeded/$name
  cp $wt/seeded.patch /verif/seeded/$name/patch.diff
  cp $wt/$demo /verif/seeded/$name/$(echo $demo | tr '/' '_')
  cp $wt/NOTES.md /verif/seeded/$name/NOTES.md
  echo "$suite" > /verif/seeded/$name/.suite
  echo "$demo" > /verif/seeded/$name/.demo
  echo CONFIRMED
else
  echo NOT-CONFIRMED
fi
cd /; git -C /repo worktree remove --force $scratch
