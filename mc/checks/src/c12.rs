//! C12 — in-place and buffer-to-buffer operation give identical bytes whatever the output buffer
//! contained beforehand, and leave the same chaining state.
use crate::c01::{padded_dec, padded_enc};
use crate::ctx::*;
use crate::ensure;
use crate::fe::*;
use crate::rec;
use crate::util::*;
use base::api::*;
use base::json::J;
use base::refmodel as rf;

const FAMILIES: [&str; 13] = ["cbc", "pcbc", "ige", "cfb", "cfb8", "ofb", "ctr32be", "ctr32le", "ctr64be", "ctr64le", "ctr128be", "ctr128le", "belt"];

/// output-buffer pre-fill alphabet
pub fn prefills(seed: u64, inp: &[u8], expected: &[u8]) -> Vec<(&'static str, Vec<u8>)> {
    vec![
        ("zeros", vec![0; inp.len()]),
        ("ff", vec![0xff; inp.len()]),
        ("copy_of_input", inp.to_vec()),
        ("complement_of_input", inp.iter().map(|b| !b).collect()),
        ("pattern", pattern(seed, 0xF111, inp.len())),
        ("expected_output", expected.to_vec()),
    ]
}

pub fn run(ctx: &Ctx) -> Outcome {
    let cfgs = ctx.cfgs();
    let tier = ctx.tier;
    let seed = ctx.seed;
    let mut units: Vec<(&Cfg, &'static str, Dir)> = vec![];
    for c in &cfgs {
        for fam in FAMILIES {
            let present = match fam {
                "cbc" | "pcbc" | "cfb" | "cfb8" | "ofb" => true,
                "ige" => c.block_mode("ige", Dir::Enc).is_some(),
                f => c.core(f).is_some(),
            };
            if !present {
                continue;
            }
            units.push((c, fam, Dir::Enc));
            if matches!(fam, "cbc" | "pcbc" | "ige" | "cfb" | "cfb8") {
                units.push((c, fam, Dir::Dec));
            }
        }
    }
    let r1 = par_map(&units, |(cfg, fam, dir)| {
        let mut rep = Report::new(format!("{}/{}-{}", cfg.name, fam, dir.s()));
        let bs = cfg.bs;
        let par = par_of(cfg);
        let block_only = matches!(*fam, "cbc" | "pcbc" | "ige");
        let lmax = if block_only { tier.pick(2 * par + 2, 3 * par + 3) * bs } else { tier.pick(3 * bs + 2, 4 * bs + 3).max(if fam.starts_with("ctr") || *fam == "belt" || *fam == "cfb" { (par + 2) * bs + 1 } else { 0 }) };
        let mut lens: Vec<usize> = if block_only { (0..=lmax / bs).map(|n| n * bs).collect() } else { byte_lengths(bs, lmax) };
        let mut lmax = lmax;
        if bs <= 32 {
            // long calls: past 8 and 16 blocks whatever the parallel width
            lens.extend(if block_only { long_block_lengths(bs) } else { long_lengths(bs) });
            lmax = lmax.max(*lens.iter().max().unwrap());
        }
        let fes = family_frontends(cfg, fam, *dir);
        let iv_len = if *fam == "ige" { 2 * bs } else { bs };
        for key in keys(seed, cfg.key_len).iter().take(1) {
            for (ivn, iv) in iv_variants(seed, iv_len).into_iter().skip(tier.pick(2, 0)) {
                for (dn, data) in data_variants(seed, 0xC12, lmax).into_iter().skip(light(cfg, tier)) {
                    for &l in &lens {
                        let m = &data[..l];
                        let (want, _) = family_ref(cfg, fam, *dir, key, &iv, m);
                        for fe in &fes {
                            if l % fe.gran != 0 {
                                continue;
                            }
                            let write = fe.name.contains("write_keystream");
                            let others: Vec<Kind> = if write { vec![Kind::InPlace] } else { fe.kinds.iter().copied().filter(|k| *k != Kind::InPlace).collect() };
                            if others.is_empty() {
                                continue;
                            }
                            // split shapes: whole, and (stateful front-ends) one cut near the middle on the granule
                            // and (front-ends with single-block entry points) block by block through those
                            let mut shapes: Vec<(Vec<usize>, bool)> = vec![(vec![l], false)];
                            if fe.multi && l >= 2 * fe.gran {
                                let cut = (l / 2 / fe.gran).max(1) * fe.gran;
                                shapes.push((vec![cut, l - cut], false));
                            }
                            if fe.singles && l >= fe.gran && l / fe.gran <= 6 {
                                shapes.push((vec![fe.gran; l / fe.gran], true));
                            }
                            for (shape, single) in &shapes {
                                let single = *single;
                                let base_pieces: Vec<P> = shape.iter().map(|&n| P { single, ..p(n, Kind::InPlace) }).collect();
                                let Ok(Ok(base)) = std::panic::catch_unwind(std::panic::AssertUnwindSafe(|| (fe.run)(key, &iv, m, &base_pieces, &want))) else {
                                    rep.case(|| (fe.run)(key, &iv, m, &base_pieces, &want).map(|_| ()));
                                    continue;
                                };
                                rep.outcome(&base.out);
                                for &k in &others {
                                    let pieces: Vec<P> = shape.iter().map(|&n| P { single, ..p(n, k) }).collect();
                                    for (pn, pre) in prefills(seed, m, &want) {
                                        rep.case(|| {
                                            let got = (fe.run)(key, &iv, m, &pieces, &pre)?;
                                            ensure!(got.out == base.out, format!("bytes_differ/{}", fe.name), "{} L={} iv={} data={} pieces [{}] with the output buffer pre-filled with {}: {} differs from the in-place result {} (first diff at byte {:?})", fe.ty, l, ivn, dn, ps(&pieces), pn, short(&got.out), short(&base.out), first_diff(&got.out, &base.out));
                                            ensure!(got.state == base.state, format!("state_differs/{}", fe.name), "{} L={} pieces [{}] prefill {}: chaining state {:?} differs from the in-place run's {:?}", fe.ty, l, ps(&pieces), pn, got.state.as_ref().map(|s| short(s)), base.state.as_ref().map(|s| short(s)));
                                            Ok(())
                                        });
                                    }
                                }
                            }
                        }
                    }
                }
            }
        }
        rep.sample(case_json(vec![("family", (*fam).into()), ("dir", dir.s().into()), ("cfg", cfg.name.as_str().into()), ("prefills", J::Arr(vec!["zeros".into(), "ff".into(), "copy_of_input".into(), "complement_of_input".into(), "pattern".into(), "expected_output".into()])), ("front_ends", J::Arr(fes.iter().map(|f| f.name.as_str().into()).collect()))]));
        rep.finish()
    });
    // ciphertext stealing and padded forms
    let cts_units: Vec<(&Cfg, &CtsDesc)> = cfgs.iter().flat_map(|c| c.cts.iter().map(move |d| (*c, d))).collect();
    let r2 = par_map(&cts_units, |(cfg, d)| {
        let mut rep = Report::new(format!("{}/{}", cfg.name, d.name));
        let bs = cfg.bs;
        let lens = crate::c05::cts_lengths(bs, par_of(cfg), tier);
        let lmax = *lens.last().unwrap();
        for key in keys(seed, cfg.key_len).iter().take(1) {
            let iv = pattern(seed, 0x1717, bs);
            for (dn, data) in data_variants(seed, 0xC12, lmax) {
                for &l in &lens {
                    let m = &data[..l];
                    for dir in [Dir::Enc, Dir::Dec] {
                        let fe = fe_cts(cfg, d, dir);
                        let want = cts_ref(cfg, d, dir, key, &iv, m);
                        let Ok(Ok(base)) = std::panic::catch_unwind(std::panic::AssertUnwindSafe(|| (fe.run)(key, &iv, m, &[p(l, Kind::InPlace)], &want))) else {
                            rep.case(|| (fe.run)(key, &iv, m, &[p(l, Kind::InPlace)], &want).map(|_| ()));
                            continue;
                        };
                        rep.outcome(&base.out);
                        for k in [Kind::B2b, Kind::InOut] {
                            for (pn, pre) in prefills(seed, m, &want) {
                                rep.case(|| {
                                    let got = (fe.run)(key, &iv, m, &[p(l, k)], &pre)?;
                                    ensure!(got.out == base.out, format!("bytes_differ/{}-{}/{}", d.name, dir.s(), crate::c05::shape(bs, l)), "{} {}({}) L={} data={} with the output buffer pre-filled with {}: {} differs from the in-place result {} (first diff at byte {:?})", d.ty, dir.s(), k.s(), l, dn, pn, short(&got.out), short(&base.out), first_diff(&got.out, &base.out));
                                    Ok(())
                                });
                            }
                        }
                    }
                }
            }
        }
        rep.finish()
    });
    let pad_units: Vec<(&Cfg, &'static str)> = cfgs.iter().flat_map(|c| ["cbc", "pcbc", "ige", "cfb", "cfb8", "ofb"].into_iter().filter(|m| c.block_mode(m, Dir::Enc).is_some()).map(move |m| (*c, m))).collect();
    let r3 = par_map(&pad_units, |(cfg, mode)| {
        let mut rep = Report::new(format!("{}/{}-padded", cfg.name, mode));
        let de = cfg.block_mode(mode, Dir::Enc).unwrap();
        let dd = cfg.block_mode(mode, Dir::Dec).unwrap();
        let mbs = de.mbs;
        let lmax = tier.pick(2 * mbs + 1, 3 * mbs + 2).max(3);
        // plus messages long enough for the parallel path inside the padded calls, and past 8 / 16 blocks
        let mut plens = byte_lengths(mbs, lmax);
        let par = par_of(cfg);
        for n in [par + 1, 2 * par + 1, 9, 17] {
            if n * mbs <= 17 * 32 {
                plens.extend([n * mbs, n * mbs + 1, n * mbs + mbs - 1]);
            }
        }
        plens.sort();
        plens.dedup();
        let lmax = *plens.last().unwrap();
        for key in keys(seed, cfg.key_len).iter().take(1) {
            let iv = pattern(seed, 0x1717, de.iv_len);
            for (dn, data) in data_variants(seed, 0xC12, lmax) {
                for &l in &plens {
                    let m = &data[..l];
                    for pad in PADS {
                        if rf::pad(pad, mbs, m).is_none() {
                            continue;
                        }
                        let Ok(Ok(base)) = std::panic::catch_unwind(std::panic::AssertUnwindSafe(|| padded_enc(cfg, de, pad, Kind::InPlace, key, &iv, m))) else {
                            rep.case(|| padded_enc(cfg, de, pad, Kind::InPlace, key, &iv, m).map(|_| ()));
                            continue;
                        };
                        rep.outcome(&base);
                        for k in [Kind::B2b, Kind::InOut] {
                            rep.case(|| {
                                let got = padded_enc(cfg, de, pad, k, key, &iv, m)?;
                                ensure!(got == base, format!("padded_bytes_differ/{}-enc", mode), "{} encrypt_padded<{}> L={} data={}: form {} gives {} but the in-place form gives {}", de.ty, pad.s(), l, dn, k.s(), short(&got), short(&base));
                                let back_in = padded_dec(cfg, dd, pad, Kind::InPlace, key, &iv, &base)?;
                                let back = padded_dec(cfg, dd, pad, k, key, &iv, &base)?;
                                ensure!(back == back_in, format!("padded_bytes_differ/{}-dec", mode), "{} decrypt_padded<{}> L={}: form {} gives {} but the in-place form gives {}", dd.ty, pad.s(), l, k.s(), short(&back), short(&back_in));
                                Ok(())
                            });
                        }
                    }
                }
            }
        }
        rep.finish()
    });
    // keystream cores: the consuming partial call (try_apply_keystream_partial) in place vs the two-buffer forms
    let core_units: Vec<(&Cfg, &CoreDesc)> = cfgs.iter().flat_map(|c| c.cores.iter().map(move |d| (*c, d))).collect();
    let rp = par_map(&core_units, |(cfg, d)| {
        let mut rep = Report::new(format!("{}/{}/partial", cfg.name, d.mode));
        let bs = cfg.bs;
        let par = par_of(cfg);
        let key = &keys(seed, cfg.key_len)[0];
        let iv = pattern(seed, 0x1717, bs);
        let mut lens = vec![0usize, 1, bs - 1 + (bs == 1) as usize, bs, bs + 1, 2 * bs + bs / 2 + 1, (par + 1) * bs + bs / 2 + 1];
        lens.sort();
        lens.dedup();
        let lmax = *lens.last().unwrap();
        let data = pattern(seed, 0xC12F, lmax);
        for &l in &lens {
            for start in [0u128, 5] {
                let m = &data[..l];
                let run = |k: Kind, pre: &[u8]| -> Result<(Vec<u8>, bool), Fail> {
                    let mut core = rec::core(cfg, d, key, &iv);
                    if start != 0 && d.seekable {
                        ensure!(core.set_block_pos(start), "MACHINERY", "harness: position fits");
                    }
                    let mut out = if k.in_place() { m.to_vec() } else { pre.to_vec() };
                    let r = core.partial(k, m, &mut out);
                    Ok((out, r.is_ok()))
                };
                let Ok(Ok(base)) = std::panic::catch_unwind(std::panic::AssertUnwindSafe(|| run(Kind::InPlace, &[]))) else {
                    rep.case(|| run(Kind::InPlace, &[]).map(|_| ()));
                    continue;
                };
                rep.outcome(&base.0);
                for k in [Kind::B2b, Kind::InOut, Kind::Alias] {
                    for (pn, pre) in prefills(seed, m, &base.0) {
                        rep.case(|| {
                            let got = run(k, &pre)?;
                            ensure!(got == base, format!("bytes_differ/{}/partial", d.mode), "{} try_apply_keystream_partial of {} bytes from block {} ({}; output pre-filled with {}): {} but in place {}", d.ty, l, start, k.s(), pn, short(&got.0), short(&base.0));
                            Ok(())
                        });
                    }
                }
            }
        }
        rep.finish()
    });
    let mut o = merge(r1);
    extend(&mut o, merge(rp));
    extend(&mut o, merge(r2));
    extend(&mut o, merge(r3));
    o.rule = "stateless exhaustive: every operation offered both in place and buffer-to-buffer / inout (block-level calls, one-shots, keystream application at core and byte level, write_keystream into a dirty buffer, ciphertext stealing, padded forms) x configuration x direction x IV x data x length x split shape (whole, one cut) x output pre-fill in {zeros, 0xFF, copy of input, complement of input, pattern, expected output}; oracle: bytes and exported chaining state identical to the in-place run".into();
    o.configs = cfgs.iter().map(|c| c.name.clone()).collect();
    o.bounds = vec![("block_modes_max_blocks".into(), J::Str(tier.pick("2*PAR+2", "3*PAR+3").into())), ("byte_modes_max_len".into(), J::Str(tier.pick("max(3*bs+2,(PAR+2)*bs+1)", "max(4*bs+3,(PAR+2)*bs+1)").into())), ("prefills".into(), J::Int(6)), ("ivs".into(), J::Int(tier.pick(1, 3)))];
    o.assumptions = vec![];
    o
}
