//! C04 — CTR keystream uses the documented counter-block layout in all six flavours.
use crate::ctx::*;
use crate::ensure;
use crate::rec;
use crate::util::*;
use base::api::*;
use base::json::J;
use base::refmodel as rf;
use base::toy;
use std::sync::atomic::{AtomicU64, Ordering};

/// block indices around every carry boundary and around the end of the keystream
pub fn index_windows(w: u32, win: u128) -> Vec<u128> {
    let lim = rf::ctr_limit_blocks(w); // valid indices 0 ..= lim-1
    let mut v = std::collections::BTreeSet::new();
    for i in 0..=win {
        v.insert(i);
    }
    for k in 1..(w / 8) {
        let c = 1u128 << (8 * k);
        for i in c - win..=c + win {
            v.insert(i);
        }
    }
    for i in lim - 1 - win..=lim - 1 {
        v.insert(i);
    }
    v.into_iter().filter(|i| *i < lim).collect()
}
/// IVs: pairwise distinct nonce bytes, counter field at the carry boundaries
pub fn ivs(seed: u64, bs: usize, w: u32, be: bool) -> Vec<(String, Vec<u8>)> {
    let n = (w / 8) as usize;
    let base = pattern(seed, 0xC04, bs);
    let mut fields: Vec<(String, u128)> = vec![("0".into(), 0), ("1".into(), 1)];
    for k in (8..w).step_by(8) {
        fields.push((format!("2^{k}-1"), (1u128 << k) - 1));
        fields.push((format!("2^{k}"), 1u128 << k));
    }
    let max = if w == 128 { u128::MAX } else { (1u128 << w) - 1 };
    fields.push(("2^w-2".into(), max - 1));
    fields.push(("2^w-1".into(), max));
    let mut out = vec![("pattern".to_string(), base.clone())];
    for (name, f) in fields {
        let mut iv = base.clone();
        for j in 0..n {
            let byte = (f >> (8 * j)) as u8;
            let idx = if be { bs - 1 - j } else { j };
            iv[idx] = byte;
        }
        out.push((name, iv));
    }
    out
}

pub fn run(ctx: &Ctx) -> Outcome {
    let cfgs = ctx.cfgs();
    let tier = ctx.tier;
    let seed = ctx.seed;
    let units: Vec<(&Cfg, &CoreDesc)> = cfgs.iter().flat_map(|c| c.cores.iter().filter(|d| d.mode.starts_with("ctr")).map(move |d| (*c, d))).collect();
    let reports = par_map(&units, |(cfg, d)| {
        let mut rep = Report::new(format!("{}/{}", cfg.name, d.mode));
        let bs = cfg.bs;
        let par = par_of(cfg);
        let win = (2 * par + 2) as u128;
        let key = &keys(seed, cfg.key_len)[0];
        let c = rf::Ciph::new(cfg, key);
        let idxs = index_windows(d.w, win);
        let lim = rf::ctr_limit_blocks(d.w);
        // (W-1 and 2W-1: the longest tails a call can leave)
        let mut batch = vec![1usize, par.saturating_sub(1).max(1), par, 2 * par - 1, 2 * par + 1];
        batch.sort();
        batch.dedup();
        let data = pattern(seed, 0xC04D, (2 * par + 1) * bs);
        let ivset = ivs(seed, bs, d.w, d.be);
        let extra_calls = std::cell::Cell::new(0u64);
        let ivset: Vec<_> = if tier == Tier::Quick { ivset.into_iter().enumerate().filter(|(i, _)| *i < 4 || i % 3 == 0).map(|(_, v)| v).collect() } else { ivset };
        for (ivn, iv) in &ivset {
            for &s in &idxs {
                for &m in &batch {
                    if s.checked_add(m as u128 - 1).map(|e| e > lim - 1).unwrap_or(true) {
                        continue;
                    }
                    let want_ctr: Vec<Vec<u8>> = (0..m).map(|j| rf::ctr_block(iv, d.w, d.be, s + j as u128)).collect();
                    let want_ks: Vec<u8> = want_ctr.iter().flat_map(|b| c.e(b)).collect();
                    let want_out = rf::x(&data[..m * bs], &want_ks);
                    rep.outcome(&want_ctr[0]);
                    // through the core: apply_keystream_blocks (in place / inout) and write_keystream_blocks
                    // how the index is reached: 0 = one set_block_pos on a fresh core; 1 = a position further on first, then a
                    // BACKWARD set_block_pos; 2 = set_block_pos a little before and generate up to the index; 3 = generate a
                    // block at the start, then a forward set_block_pos  (1..3 for the in-place form only)
                    for (how, reach) in [(0, 0), (1, 0), (2, 0), (0, 1), (0, 2), (0, 3)] {
                        rep.case(|| {
                            // the cipher-call log covers the whole life of the object, reach phase included
                            toy::log_start();
                            let mut core = rec::core(cfg, d, key, iv);
                            match reach {
                                1 => {
                                    let ahead = s.checked_add(par as u128 + 3).filter(|a| *a < lim).unwrap_or(lim - 1);
                                    ensure!(core.set_block_pos(ahead), "MACHINERY", "harness: block position does not fit");
                                    let mut one = dirty(bs);
                                    if ahead < lim - 1 {
                                        core.write_block(&mut one);
                                    }
                                    ensure!(core.set_block_pos(s), "MACHINERY", "harness: block position does not fit");
                                }
                                2 => {
                                    let k = s.min(2);
                                    ensure!(core.set_block_pos(s - k), "MACHINERY", "harness: block position does not fit");
                                    let mut pre = dirty(k as usize * bs);
                                    core.write_blocks(&mut pre);
                                }
                                3 => {
                                    let mut one = dirty(bs);
                                    core.write_block(&mut one);
                                    ensure!(core.set_block_pos(s), "MACHINERY", "harness: block position does not fit");
                                }
                                _ => ensure!(core.set_block_pos(s), "MACHINERY", "harness: block position does not fit"),
                            }
                            let mut out = match how {
                                0 => data[..m * bs].to_vec(),
                                _ => dirty(m * bs),
                            };
                            match how {
                                0 => {
                                    let _ = core.apply_blocks(Kind::InPlace, &[], &mut out);
                                }
                                1 => {
                                    let _ = core.apply_blocks(Kind::B2b, &data[..m * bs], &mut out);
                                }
                                _ => {
                                    core.write_blocks(&mut out);
                                    out = rf::x(&out, &data[..m * bs]);
                                }
                            }
                            let log = toy::log_take();
                            if cfg.is_toy() {
                                // every expected counter block must have been fed to the cipher at some point of the object's life
                                // (extra cipher calls, and blocks served from memory when needed again, are the implementation's business)
                                let got: Vec<Vec<u8>> = log.iter().filter(|l| l.dir == b'E').map(|l| l.input.clone()).collect();
                                match first_missing(&got, &want_ctr) {
                                    None => extra_calls.set(extra_calls.get() + got.len().saturating_sub(want_ctr.len()) as u64),
                                    Some(j) => {
                                        return fail(format!("counter_block_wrong/{}", d.mode), format!("{} iv={} (field {}): the counter block {} of keystream block {} was never fed to E; E received [{}] (reached by positioning at {} and generating {} blocks in one call)", d.ty, short(iv), ivn, short(&want_ctr[j]), s + j as u128, got.iter().rev().take(4).map(|b| short(b)).collect::<Vec<_>>().join(" "), s, m));
                                    }
                                }
                            }
                            ensure!(out == want_out, format!("keystream_wrong/{}", d.mode), "{} iv={} (field {}) blocks {}..+{}: output {} want {} (first diff at byte {:?})", d.ty, short(iv), ivn, s, m, short(&out), short(&want_out), first_diff(&out, &want_out));
                            let st = core.iv_state();
                            let want_st = rf::ctr_block(iv, d.w, d.be, s.wrapping_add(m as u128));
                            ensure!(st == want_st, format!("next_counter_block_wrong/{}", d.mode), "{} iv={} after block {}: iv_state() = {} want {}", d.ty, short(iv), s + (m as u128 - 1), short(&st), short(&want_st));
                            Ok(())
                        });
                    }
                    // through the byte-level alias: seek to the block, then one request
                    if let Some(p) = s.checked_mul(bs as u128) {
                        rep.case(|| {
                            let mut st = rec::stream(cfg, d, key, iv);
                            let r = st.seek(SeekTy::U128, p).expect("harness: seekable");
                            ensure!(r.is_ok(), format!("seek_refused/{}", d.mode), "{}: seek to block {} refused", d.ty, s);
                            if m == 1 {
                                // arrive a second time: an unaligned position in a later block (or in this one), then back
                                let later = if s.checked_add(2).map(|e| e < lim).unwrap_or(false) { p.checked_add(bs as u128 + bs as u128 / 2) } else { p.checked_add(bs as u128 / 2) };
                                let _ = st.seek(SeekTy::U128, later.unwrap_or(0)).expect("harness: seekable");
                                let r = st.seek(SeekTy::U128, p).expect("harness: seekable");
                                ensure!(r.is_ok(), format!("seek_refused/{}", d.mode), "{}: seek back to block {} refused", d.ty, s);
                            }
                            let mut out = data[..m * bs].to_vec();
                            ensure!(st.apply(Kind::InPlace, &[], &mut out).is_ok(), format!("request_refused/{}", d.mode), "{}: {} blocks at index {} refused", d.ty, m, s);
                            ensure!(out == want_out, format!("keystream_wrong/{}/stream", d.mode), "{} iv={} (field {}) blocks {}..+{} through the byte-level cipher: {} want {}", d.ty, short(iv), ivn, s, m, short(&out), short(&want_out));
                            Ok(())
                        });
                    }
                }
            }
        }
        // caller-supplied closure scripts (every sequence of <= 3 backend calls over {group, single block, tail of 1, tail of 2}
        // in one process_with_backend session) from the start, from a carry boundary and from just before the field wraps
        if cfg.is_toy() {
            let mut scripts: Vec<Vec<u8>> = vec![];
            let ops: Vec<u8> = [0u8, 2, 4, 6].into_iter().filter(|o| (*o < 6 || par >= 3) && (*o < 4 || par >= 2)).collect();
            let mut last: Vec<Vec<u8>> = vec![vec![]];
            for _ in 0..3 {
                last = last.iter().flat_map(|s| ops.iter().map(move |o| { let mut t = s.clone(); t.push(*o); t })).collect();
                scripts.extend(last.iter().cloned());
            }
            for (ivn, iv) in ivset.iter().take(3) {
                for s0 in [0u128, 255, (1u128 << 16) - par as u128] {
                    if s0 + 3 * par as u128 + 3 >= lim {
                        continue;
                    }
                    for script in &scripts {
                        let n = base::api::script_blocks(script, par);
                        let want_ctr: Vec<Vec<u8>> = (0..n).map(|j| rf::ctr_block(iv, d.w, d.be, s0 + j as u128)).collect();
                        let want_ks: Vec<u8> = want_ctr.iter().flat_map(|b| c.e(b)).collect();
                        rep.case(|| {
                            toy::log_start();
                            let mut core = rec::core(cfg, d, key, iv);
                            ensure!(core.set_block_pos(s0), "MACHINERY", "harness: block position does not fit");
                            let mut ks = dirty(n * bs);
                            let used = core.write_script(script, &mut ks);
                            let log = toy::log_take();
                            ensure!(used == n, "MACHINERY", "harness: script consumed {} blocks, expected {}", used, n);
                            let got: Vec<Vec<u8>> = log.iter().filter(|l| l.dir == b'E').map(|l| l.input.clone()).collect();
                            if let Some(j) = first_missing(&got, &want_ctr) {
                                return fail(format!("counter_block_wrong/{}", d.mode), format!("{} iv={} (field {}): closure script {:?} from block {}: the counter block of keystream block {} was never fed to E", d.ty, short(iv), ivn, script, s0, s0 + j as u128));
                            }
                            ensure!(ks == want_ks, format!("keystream_wrong/{}/script", d.mode), "{} iv={} (field {}): caller-supplied closure making the backend calls {:?} in one session from block {}: keystream {} want {} (first diff at byte {:?})", d.ty, short(iv), ivn, script, s0, short(&ks), short(&want_ks), first_diff(&ks, &want_ks));
                            let st = core.iv_state();
                            let want_st = rf::ctr_block(iv, d.w, d.be, s0 + n as u128);
                            ensure!(st == want_st, format!("next_counter_block_wrong/{}", d.mode), "{}: iv_state() after closure script {:?} from block {} is {} want {}", d.ty, script, s0, short(&st), short(&want_st));
                            Ok(())
                        });
                    }
                }
            }
        }
        rep.count("indices_per_unit", idxs.len() as u64);
        rep.count("extra_cipher_calls_tolerated", extra_calls.get());
        rep.sample(case_json(vec![("type", d.ty.as_str().into()), ("iv", hx(&ivset[1].1)), ("index", J::Str(idxs[idxs.len() / 2].to_string())), ("expected_counter_block", hx(&rf::ctr_block(&ivset[1].1, d.w, d.be, idxs[idxs.len() / 2]))), ("indices", idxs.len().into()), ("ivs", ivset.len().into())]));
        rep.finish()
    });
    let mut o = merge(reports);
    // ---- thorough: complete sweep of all 2^32 - 1 block indices of the 32-bit flavours ----------
    let sweep_cfgs: Vec<&Cfg> = ctx.reg.cfgs.iter().filter(|c| c.sets.contains('x')).collect();
    let mut swept = false;
    if tier == Tier::Thorough && !sweep_cfgs.is_empty() {
        swept = true;
        const SEG: u64 = 1 << 26;
        let total: u64 = (1u64 << 32) - 1;
        let mut segs: Vec<(&Cfg, &CoreDesc, u64, u64)> = vec![];
        for c in &sweep_cfgs {
            for d in c.cores.iter().filter(|d| d.w == 32) {
                let mut a = 0u64;
                while a < total {
                    let b = (a + SEG).min(total);
                    segs.push((c, d, a, b));
                    a = b;
                }
            }
        }
        let verified = AtomicU64::new(0);
        let r = par_map(&segs, |(cfg, d, a, b)| {
            let mut rep = Report::new(format!("{}/{}/sweep[{a},{b})", cfg.name, d.mode));
            let bs = cfg.bs;
            let key = &keys(seed, cfg.key_len)[0];
            // counter field starts at a pattern value so that the 2^32 wrap happens inside the sweep
            let iv = pattern(seed, 0xC045, bs);
            let k32 = toy::key32(key);
            let pad: Vec<u8> = (0..bs).map(|i| toy::xor_pad_byte(k32, i)).collect();
            rep.case(|| {
                let mut core = rec::core(cfg, d, key, &iv);
                ensure!(core.set_block_pos(*a as u128), "MACHINERY", "harness: block position does not fit");
                let chunk_blocks: u64 = 1 << 14;
                let mut buf = vec![0u8; chunk_blocks as usize * bs];
                // independent counter: the expected counter block, incremented byte-wise
                let mut exp = rf::ctr_block(&iv, 32, d.be, *a as u128);
                let mut i = *a;
                while i < *b {
                    let n = chunk_blocks.min(*b - i) as usize;
                    let sl = &mut buf[..n * bs];
                    sl.fill(0);
                    let _ = core.apply_blocks(Kind::InPlace, &[], sl);
                    for blk in sl.chunks_exact(bs) {
                        let ok = blk.iter().zip(&pad).zip(&exp).all(|((k, p), e)| k ^ p == *e);
                        ensure!(ok, format!("counter_block_wrong/{}/sweep", d.mode), "{} iv={}: keystream block {} corresponds to counter block {} want {}", d.ty, short(&iv), i, short(&rf::x(blk, &pad)), short(&exp));
                        // byte-wise increment of the 32-bit field with wrap (no carry out of the field)
                        for j in 0..4 {
                            let idx = if d.be { bs - 1 - j } else { j };
                            exp[idx] = exp[idx].wrapping_add(1);
                            if exp[idx] != 0 {
                                break;
                            }
                        }
                        i += 1;
                    }
                }
                verified.fetch_add(*b - *a, Ordering::Relaxed);
                Ok(())
            });
            rep.finish()
        });
        let mut so = merge(r);
        so.counters.insert("sweep_blocks_verified".into(), verified.load(Ordering::Relaxed));
        extend(&mut o, so);
    }
    o.rule = "stateless exhaustive over the carry alphabet: flavour (32/64/128 x BE/LE) x configuration whose block size is a multiple of the counter size x IV with pairwise distinct nonce bytes and counter field in {0,1,2^k-1,2^k (k=8,16,..),2^w-2,2^w-1,pattern} x block index in the carry windows [0,W], [256^k-W,256^k+W], [2^w-2-W,2^w-2] (W=2*PAR+2) x batch size {1,PAR,2PAR+1} generated in ONE call from that index (so carries are crossed inside a parallel batch) through apply_keystream_blocks in place / inout, write_keystream_blocks and the byte-level cipher after a seek; oracle: the block the harness cipher RECEIVED equals layout(IV,i) computed with a byte-wise carry chain (every other byte untouched), output = input xor E(layout), iv_state() = layout(IV, next). Thorough additionally sweeps all 2^32-1 indices of Ctr32BE/Ctr32LE (block sizes 4 and 16) against an independently incremented counter".into();
    o.configs = cfgs.iter().map(|c| c.name.clone()).chain(if swept { sweep_cfgs.iter().map(|c| c.name.clone()).collect::<Vec<_>>() } else { vec![] }).collect();
    o.bounds = vec![("window".into(), J::Str("W = 2*PAR+2 around every 256^k and the end".into())), ("full_sweep_32bit".into(), swept.into())];
    o.assumptions = vec!["for the 64- and 128-bit flavours 'all i' is covered on the carry windows only; next_block is one wrapping add plus to_{be,le}_bytes with no other dependence on i (stated limit)".into()];
    o
}
