//! The seek / exhaustion machine shared by C10 and C11: a byte-level stream cipher driven by
//! {seek<T>(p), apply(n, form), core partial(n)} in lockstep with a random-access reference keystream
//! and a reference position kept as (block, byte) so that 2^128 * 16 does not overflow.
use crate::bfs::Machine;
use crate::ctx::*;
use crate::ensure;
use crate::rec;
use crate::util::*;
use base::api::*;
use base::refmodel as rf;
use base::toy;

#[derive(Clone, Debug, PartialEq)]
pub enum SAct {
    Seek(SeekTy, u128),
    Apply(usize, Kind),
}
pub fn sact_s(a: &SAct) -> String {
    match a {
        SAct::Seek(t, p) => format!("seek::<{}>({})", t.s(), p),
        SAct::Apply(n, k) => format!("apply_{}({})", k.s(), n),
    }
}

/// how the machine's initial state is reached
#[derive(Clone, Debug, PartialEq)]
pub enum Init {
    Fresh,
    /// `set_block_pos(b)` on the core, then `StreamCipherCoreWrapper::from_core`
    CoreAt(u128),
    /// as `CoreAt`, then one byte consumed (partially consumed buffer)
    CoreAtPlus1(u128),
}

pub struct SeekMachine<'a> {
    pub cfg: &'a Cfg,
    pub d: &'a CoreDesc,
    pub key: &'a [u8],
    pub iv: &'a [u8],
    pub data: &'a [u8],
    pub init: Init,
    pub seeks: Vec<(SeekTy, u128)>,
    pub applies: Vec<(usize, Kind)>,
    /// property prefix for nothing; fingerprints are relative
    pub check_log: bool,
}

/// reference position
#[derive(Clone, Copy, Debug, PartialEq)]
pub struct RPos {
    pub block: u128,
    pub byte: usize,
    /// position lies beyond the end of the keystream (after an accepted seek into block index >= limit)
    pub beyond: bool,
}

impl SeekMachine<'_> {
    pub fn limit(&self) -> u128 {
        rf::ctr_limit_blocks(self.d.w)
    }
    fn bs(&self) -> usize {
        self.cfg.bs
    }
    fn ks(&self, c: &rf::Ciph, block: u128, byte: usize, len: usize) -> Vec<u8> {
        if self.d.mode == "belt" { rf::belt_ks(c, self.iv, block, byte, len) } else { rf::ctr_ks(c, self.iv, self.d.w, self.d.be, block, byte, len) }
    }
    fn counter_block(&self, c: &rf::Ciph, idx: u128) -> Vec<u8> {
        if self.d.mode == "belt" { rf::belt_counter_block(c, self.iv, idx) } else { rf::ctr_block(self.iv, self.d.w, self.d.be, idx) }
    }
    /// does a request of n bytes from `p` fit into the limit?  (positions as block/byte, no overflow)
    fn fits(&self, p: RPos, n: usize) -> bool {
        if n == 0 {
            return true;
        }
        if p.beyond {
            return false;
        }
        let bs = self.bs() as u128;
        // last byte index offset: p.byte + n - 1 within block p.block + q
        let q = ((p.byte + n - 1) as u128) / bs;
        match p.block.checked_add(q) {
            Some(last_block) => last_block < self.limit(),
            None => false,
        }
    }
    fn advance(&self, p: RPos, n: usize) -> RPos {
        let bs = self.bs();
        let t = p.byte + n;
        RPos { block: p.block + (t / bs) as u128, byte: t % bs, beyond: p.beyond }
    }
    /// byte position as an integer, if it fits u128
    fn as_int(&self, p: RPos) -> Option<u128> {
        p.block.checked_mul(self.bs() as u128)?.checked_add(p.byte as u128)
    }
    fn counter_fits(&self, block: u128) -> bool {
        match self.d.w {
            32 => block <= u32::MAX as u128,
            64 => block <= u64::MAX as u128,
            _ => true,
        }
    }

    fn observe(&self, s: &dyn Stream, p: RPos, hist: &[SAct], counts: &mut [u64; 2]) -> CaseResult {
        if p.beyond {
            return Ok(());
        }
        let name = self.d.mode;
        let int = self.as_int(p);
        let bs = self.bs() as u128;
        let started = p.block + (p.byte != 0) as u128;
        for t in SEEK_TYS {
            let got = s.pos(t).expect("harness: seekable");
            let fits = int.map(|v| v <= t.max()).unwrap_or(false);
            match got {
                Ok(v) => {
                    ensure!(fits && Some(v) == int, format!("position_wrong/{name}"), "{} after [{}]: try_current_pos::<{}>() = Ok({}) but {} keystream bytes precede the next byte (block {}, byte {})", self.d.ty, hs(hist), t.s(), v, int.map(|v| v.to_string()).unwrap_or_else(|| "more than 2^128".into()), p.block, p.byte);
                }
                Err(()) => {
                    // tolerated: the rounded-up block boundary does not fit T although the position does
                    let rounded_fits = started.checked_mul(bs).map(|v| v <= t.max()).unwrap_or(false);
                    ensure!(!(fits && rounded_fits), format!("position_error_spurious/{name}"), "{} after [{}]: try_current_pos::<{}>() = Err although position {:?} (and the end of its block) fits", self.d.ty, hs(hist), t.s(), int);
                    if fits {
                        counts[0] += 1;
                    }
                }
            }
        }
        // block position of the core = blocks started
        if let Some(bp) = s.core_block_pos() {
            ensure!(bp == started, format!("block_position_wrong/{name}"), "{} after [{}]: get_block_pos() = {} but {} blocks have been started", self.d.ty, hs(hist), bp, started);
        }
        if let Some(r) = s.core_remaining() {
            let want = self.limit() - started.min(self.limit());
            ensure!(r as u128 == want, format!("remaining_blocks_inexact/{name}"), "{} after [{}]: remaining_blocks() = {} but {} of the {} blocks remain", self.d.ty, hs(hist), r, want, self.limit());
            counts[1] += 1;
        } else {
            // `None` is always allowed by the property ("whenever one is reported"): nothing to check
        }
        Ok(())
    }
}
impl SeekMachine<'_> {
    /// Independent enumeration of the REFERENCE model alone (no real object involved): the set of
    /// reference positions reachable within `depth` actions.  If the implementation is correct the
    /// explorer must have found exactly these positions; a difference means the explorer skipped or
    /// invented states (machinery error), it is never a verdict about the subject.
    pub fn model_reachable(&self, depth: usize) -> std::collections::BTreeSet<(bool, u128, usize)> {
        let bs = self.bs();
        let start = match &self.init {
            Init::Fresh => RPos { block: 0, byte: 0, beyond: false },
            Init::CoreAt(b) => RPos { block: *b, byte: 0, beyond: *b >= self.limit() },
            Init::CoreAtPlus1(b) => {
                let p = RPos { block: *b, byte: 0, beyond: *b >= self.limit() };
                if self.fits(p, 1) { self.advance(p, 1) } else { p }
            }
        };
        let mut seen = std::collections::BTreeSet::new();
        seen.insert((start.beyond, start.block, start.byte));
        let mut frontier = vec![start];
        for _ in 0..depth {
            let mut next = vec![];
            for p in &frontier {
                let mut succ = vec![];
                for (n, _k) in &self.applies {
                    succ.push(if self.fits(*p, *n) { self.advance(*p, *n) } else { *p });
                }
                for (_t, pos) in &self.seeks {
                    let block = pos / bs as u128;
                    let byte = (pos % bs as u128) as usize;
                    succ.push(if self.counter_fits(block) { RPos { block, byte, beyond: block >= self.limit() && !(block == self.limit() && byte == 0) } } else { *p });
                }
                for q in succ {
                    if seen.insert((q.beyond, q.block, q.byte)) {
                        next.push(q);
                    }
                }
            }
            frontier = next;
        }
        seen
    }
    /// positions encoded in the canonical keys of a finished BFS
    pub fn positions_of_keys(keys: &[Vec<u8>]) -> std::collections::BTreeSet<(bool, u128, usize)> {
        keys.iter().map(|k| (k[0] != 0, u128::from_le_bytes(k[1..17].try_into().unwrap()), u64::from_le_bytes(k[17..25].try_into().unwrap()) as usize)).collect()
    }
}
pub fn hs(h: &[SAct]) -> String {
    h.iter().map(sact_s).collect::<Vec<_>>().join(", ")
}

impl Machine for SeekMachine<'_> {
    type Act = SAct;
    fn actions(&self, _hist: &[SAct]) -> Vec<SAct> {
        let mut v: Vec<SAct> = self.applies.iter().map(|(n, k)| SAct::Apply(*n, *k)).collect();
        v.extend(self.seeks.iter().map(|(t, p)| SAct::Seek(*t, *p)));
        v
    }
    fn run(&self, hist: &[SAct]) -> Result<Option<Vec<u8>>, Fail> {
        let name = self.d.mode;
        let bs = self.bs();
        let c = rf::Ciph::new(self.cfg, self.key);
        let logging = self.check_log && self.cfg.is_toy();
        if logging {
            toy::log_start();
        }
        // expected indices of the counter blocks the cipher is asked to encrypt, in order
        let mut expect_idx: Vec<u128> = vec![];
        let mut pos;
        let mut s: Box<dyn Stream> = match &self.init {
            Init::Fresh => {
                pos = RPos { block: 0, byte: 0, beyond: false };
                rec::stream(self.cfg, self.d, self.key, self.iv)
            }
            Init::CoreAt(b) | Init::CoreAtPlus1(b) => {
                let mut core = rec::core(self.cfg, self.d, self.key, self.iv);
                ensure!(core.set_block_pos(*b), "MACHINERY", "harness: block position does not fit the counter");
                pos = RPos { block: *b, byte: 0, beyond: *b >= self.limit() };
                let mut s = core.into_stream();
                if matches!(self.init, Init::CoreAtPlus1(_)) {
                    let mut one = [self.data[0]];
                    let fits = self.fits(pos, 1);
                    let r = s.apply(Kind::InPlace, &[], &mut one);
                    if fits && r.is_ok() {
                        expect_idx.push(pos.block);
                        pos = self.advance(pos, 1);
                    } else if !fits && r.is_err() {
                    } else {
                        return Ok(None); // the init itself misbehaves: covered by the Fresh/CoreAt machines' actions
                    }
                }
                s
            }
        };
        let mut counts = [0u64; 2];
        self.observe(&*s, pos, &[], &mut counts)?;
        for (i, a) in hist.iter().enumerate() {
            let h = &hist[..=i];
            match a {
                SAct::Seek(t, p) => {
                    let block = p / bs as u128;
                    let byte = (p % bs as u128) as usize;
                    let Some(r) = s.seek(*t, *p) else { return Ok(None) };
                    if !self.counter_fits(block) {
                        ensure!(r.is_err(), format!("seek_beyond_counter_accepted/{name}"), "{} [{}]: the block index {} does not fit the {}-bit counter but the seek returned Ok", self.d.ty, hs(h), block, self.d.w);
                        // state must be unchanged: checked by observe below with the old position
                    } else {
                        ensure!(r.is_ok(), format!("seek_refused/{name}"), "{} [{}]: seek to byte {} (block {}) returned Err", self.d.ty, hs(h), p, block);
                        let beyond = block >= self.limit() && !(block == self.limit() && byte == 0);
                        pos = RPos { block, byte, beyond };
                        if byte != 0 {
                            expect_idx.push(block);
                        }
                    }
                }
                SAct::Apply(n, k) => {
                    let inp = &self.data[..*n];
                    let before = if k.in_place() { inp.to_vec() } else { dirty(*n) };
                    let mut out = before.clone();
                    let r = s.apply(*k, inp, &mut out);
                    if self.fits(pos, *n) {
                        ensure!(r.is_ok(), format!("request_within_limit_refused/{name}"), "{} [{}]: a {}-byte request at block {} byte {} fits into the {} blocks but returned Err", self.d.ty, hs(h), n, pos.block, pos.byte, self.limit());
                        let want = rf::x(inp, &self.ks(&c, pos.block, pos.byte, *n));
                        ensure!(out == want, format!("keystream_wrong/{name}"), "{} [{}]: bytes produced at block {} byte {} are {} want {} (first diff at byte {:?})", self.d.ty, hs(h), pos.block, pos.byte, short(&out), short(&want), first_diff(&out, &want));
                        // blocks newly generated by this call
                        let first_new = pos.block + (pos.byte != 0) as u128;
                        let end = self.advance(pos, *n);
                        let last = end.block + (end.byte != 0) as u128; // exclusive
                        let mut b = first_new;
                        while b < last {
                            expect_idx.push(b);
                            b += 1;
                        }
                        pos = end;
                    } else {
                        let shape = if pos.beyond { "after_seek_past_end" } else { "crossing_the_limit" };
                        ensure!(r.is_err(), format!("request_beyond_limit_succeeded/{shape}/{name}"), "{} [{}]: a {}-byte request at block {} byte {} needs more than the {} keystream blocks but returned Ok", self.d.ty, hs(h), n, pos.block, pos.byte, self.limit());
                        ensure!(out == before, format!("failed_request_wrote/{name}"), "{} [{}]: the refused request modified the buffer", self.d.ty, hs(h));
                    }
                }
            }
            self.observe(&*s, pos, h, &mut counts)?;
        }
        // probe: continue with a block and a byte, as far as the limit allows
        let mut probe_out = vec![];
        if !pos.beyond {
            let pn = bs + 1;
            let pn = if self.fits(pos, pn) { pn } else if self.fits(pos, 1) { 1 } else { 0 };
            if pn > 0 {
                let mut buf = self.data[..pn].to_vec();
                let r = s.apply(Kind::InPlace, &[], &mut buf);
                ensure!(r.is_ok(), format!("request_within_limit_refused/{name}"), "{} [{}]: continuing with {} bytes at block {} byte {} returned Err", self.d.ty, hs(hist), pn, pos.block, pos.byte);
                let want = rf::x(&self.data[..pn], &self.ks(&c, pos.block, pos.byte, pn));
                ensure!(buf == want, format!("keystream_wrong/{name}"), "{} [{}]: continuing at block {} byte {} gives {} want {}", self.d.ty, hs(hist), pos.block, pos.byte, short(&buf), short(&want));
                let first_new = pos.block + (pos.byte != 0) as u128;
                let end = self.advance(pos, pn);
                let last = end.block + (end.byte != 0) as u128;
                let mut b = first_new;
                while b < last {
                    expect_idx.push(b);
                    b += 1;
                }
                probe_out = buf;
            }
        }
        if logging {
            let log = toy::log_take();
            // BelT encrypts the IV to obtain s_0: when (at construction, lazily at first use) and how often (again inside
            // iv_state()) is the implementation's business, so E(IV) calls are set aside wherever they occur
            let mut calls: Vec<&toy::Call> = log.iter().collect();
            if self.d.mode == "belt" {
                calls.retain(|c| !(c.dir == b'E' && c.input == self.iv));
            }
            // every counter block the history needs must have been fed to E at some point; order, extra cipher calls
            // (prefetching, regeneration) and serving a block that is needed again (after a seek back) from memory are the
            // implementation's business
            let got: Vec<Vec<u8>> = calls.iter().filter(|c| c.dir == b'E').map(|c| c.input.clone()).collect();
            let want: Vec<Vec<u8>> = expect_idx.iter().map(|i| self.counter_block(&c, *i)).collect();
            if let Some(j) = first_missing(&got, &want) {
                return fail(format!("counter_block_wrong/{name}"), format!("{} [{}]: the counter block for keystream block {} ({}) was never fed to E; E received [{}]", self.d.ty, hs(hist), expect_idx[j], short(&want[j]), got.iter().take(6).map(|b| short(b)).collect::<Vec<_>>().join(" ")));
            }
            // reuse monitor: one counter block, two different keystream positions
            let mut seen: std::collections::HashMap<&[u8], u128> = Default::default();
            for (w, idx) in want.iter().zip(&expect_idx) {
                if let Some(prev) = seen.insert(w.as_slice(), *idx) {
                    ensure!(prev == *idx, format!("counter_value_reused/{name}"), "{} [{}]: counter block {} was used for keystream block {} and again for block {}", self.d.ty, hs(hist), short(w), prev, idx);
                }
            }
        }
        let mut key = vec![pos.beyond as u8];
        key.extend(pos.block.to_le_bytes());
        key.extend((pos.byte as u64).to_le_bytes());
        key.extend(probe_out);
        Ok(Some(key))
    }
}
