//! C09 — the exported IV state resumes the stream and equals the public chaining value.
//!
//! Machines with a `reinstantiate` action (export with iv_state()/get_state(), build a fresh object
//! under the same key, continue with it).  Invariants: reinstantiation never changes the canonical
//! state; the exported value equals the reference chaining value; encryptor and decryptor that
//! processed corresponding data export equal values.
use crate::bfs::{self, Machine};
use crate::c07::{FamRef, fam_dirs, fam_ref};
use crate::ctx::*;
use crate::ensure;
use crate::fe::*;
use crate::rec;
use crate::util::*;
use base::api::*;
use base::json::J;
use base::refmodel as rf;

#[derive(Clone, Debug, PartialEq)]
pub enum Act {
    Feed(usize),
    /// feed through another call form: 1 = single-block call in place, 2 = single-block call buffer to buffer,
    /// 3 = `write_keystream_block` + XOR (cores), 4 = `write_keystream_blocks` of PAR+1 blocks + XOR (cores),
    /// 5..9 = caller-supplied closures (`*_with_backend` / `process_with_backend`) of five shapes over PAR / PAR+1 blocks
    Via(u8),
    Reinst,
    /// `set_block_pos(p)` on a seekable core (position relative to the IV of the current instance)
    SetPos(usize),
    /// continue with a clone; the original is dropped
    Dup,
}

enum Obj {
    Bm(Box<dyn BlockMode>),
    Core(Box<dyn Core>),
}
impl Obj {
    fn feed(&mut self, buf: &mut [u8]) {
        match self {
            Obj::Bm(b) => {
                let _ = b.many(Kind::InPlace, &[], buf);
            }
            Obj::Core(c) => {
                let _ = c.apply_blocks(Kind::InPlace, &[], buf);
            }
        }
    }
    fn feed_via(&mut self, f: u8, buf: &mut [u8]) {
        let inp = buf.to_vec();
        if matches!(f, 2 | 10 | 11 | 13) {
            // separate output buffer: it must not matter what it held before the call
            for (i, x) in buf.iter_mut().enumerate() {
                *x = 0xA5 ^ (i as u8).wrapping_mul(7);
            }
        }
        match (self, f) {
            (Obj::Bm(b), 1) => b.one(Kind::InPlace, &[], buf),
            (Obj::Bm(b), 2) => b.one(Kind::B2b, &inp, buf),
            (Obj::Core(c), 1) => c.apply_block(Kind::InPlace, &[], buf),
            (Obj::Core(c), 2) => c.apply_block(Kind::B2b, &inp, buf),
            (Obj::Core(c), 3) | (Obj::Core(c), 4) => {
                let mut ks = vec![0u8; buf.len()];
                if f == 3 {
                    c.write_block(&mut ks);
                } else {
                    c.write_blocks(&mut ks);
                }
                for (b, k) in buf.iter_mut().zip(&ks) {
                    *b ^= k;
                }
            }
            (Obj::Bm(b), 13) => b.one(Kind::InOut, &inp, buf),
            (Obj::Bm(b), 14) => b.one(Kind::Alias, &[], buf),
            (Obj::Core(c), 13) => c.apply_block(Kind::InOut, &inp, buf),
            (Obj::Core(c), 14) => c.apply_block(Kind::Alias, &[], buf),
            (Obj::Bm(b), 10) => {
                let _ = b.many(Kind::B2b, &inp, buf);
            }
            (Obj::Bm(b), 11) => {
                let _ = b.many(Kind::InOut, &inp, buf);
            }
            (Obj::Bm(b), 12) => {
                let _ = b.many(Kind::Alias, &[], buf);
            }
            (Obj::Core(c), 10) => {
                let _ = c.apply_blocks(Kind::B2b, &inp, buf);
            }
            (Obj::Core(c), 11) => {
                let _ = c.apply_blocks(Kind::InOut, &inp, buf);
            }
            (Obj::Core(c), 12) => {
                let _ = c.apply_blocks(Kind::Alias, &[], buf);
            }
            // caller-supplied closure shapes: 5 -> 1, 6 -> 2, 7 -> 3 (in-place backend methods), 8 -> 4, 9 -> 6 (misaligned groups)
            (Obj::Bm(b), 5..=9) => b.many_closure(if f == 9 { 6 } else { f - 4 }, buf),
            (Obj::Core(c), 5..=9) => {
                let mut ks = vec![0u8; buf.len()];
                c.write_blocks_closure(if f == 9 { 6 } else { f - 4 }, &mut ks);
                for (b, k) in buf.iter_mut().zip(&ks) {
                    *b ^= k;
                }
            }
            _ => unreachable!(),
        }
    }
    fn state(&self) -> Vec<u8> {
        match self {
            Obj::Bm(b) => b.iv_state(),
            Obj::Core(c) => c.iv_state(),
        }
    }
    fn dup(&self) -> Option<Obj> {
        match self {
            Obj::Bm(b) => Some(Obj::Bm(b.dup())),
            Obj::Core(c) => c.dup().map(Obj::Core),
        }
    }
    fn set_pos(&mut self, p: u128) -> bool {
        match self {
            Obj::Bm(_) => false,
            Obj::Core(c) => c.set_block_pos(p),
        }
    }
    fn block_pos(&self) -> Option<u128> {
        match self {
            Obj::Bm(_) => None,
            Obj::Core(c) => c.get_block_pos(),
        }
    }
}

struct ResumeMachine<'a> {
    cfg: &'a Cfg,
    bm: Option<&'a BlockModeDesc>,
    core: Option<&'a CoreDesc>,
    ty: &'a str,
    name: String,
    key: &'a [u8],
    iv: &'a [u8],
    data: &'a [u8],
    want: &'a FamRef,
    gran: usize,
    nmax: usize,
    sizes: Vec<usize>,
    max_cuts: usize,
}
impl ResumeMachine<'_> {
    /// number of blocks call form `f` consumes (None: form not available for this object)
    fn via_len(&self, f: u8) -> Option<usize> {
        let par = crate::util::par_of(self.cfg);
        match (self.core.is_some() && self.bm.is_none(), f) {
            (_, 1) | (_, 2) => Some(1),
            (true, 3) => Some(1),
            (true, 4) => Some(par + 1),
            (_, 5) | (_, 7) => Some(par),
            (_, 6) | (_, 8) | (_, 9) => Some(par + 1),
            // the multi-block call in the other three kinds: b2b over exactly W blocks, two-buffer inout over W+1, one-buffer inout over W
            (_, 10) | (_, 12) => Some(par),
            (_, 11) => Some(par + 1),
            // the single-block call as two-buffer inout and as one-buffer inout
            (_, 13) | (_, 14) => Some(1),
            _ => None,
        }
    }
    fn make(&self, iv: &[u8]) -> Obj {
        match (self.bm, self.core) {
            (Some(d), _) => Obj::Bm(rec::bm(self.cfg, d, self.key, iv)),
            (_, Some(d)) => Obj::Core(rec::core(self.cfg, d, self.key, iv)),
            _ => unreachable!(),
        }
    }
}
impl Machine for ResumeMachine<'_> {
    type Act = Act;
    fn actions(&self, hist: &[Act]) -> Vec<Act> {
        let used: usize = hist.iter().map(|a| match a {
            Act::Feed(n) => *n,
            Act::Via(f) => self.via_len(*f).unwrap_or(0),
            _ => 0,
        }).sum();
        let cuts = hist.iter().filter(|a| **a == Act::Reinst).count();
        let mut v = vec![];
        if cuts < self.max_cuts && hist.last() != Some(&Act::Reinst) {
            v.push(Act::Reinst);
        }
        // mixed histories: at most one clone and two repositionings per history
        let clonable = self.core.map(|c| c.clonable).unwrap_or(true);
        if clonable && !hist.contains(&Act::Dup) {
            v.push(Act::Dup);
        }
        if self.core.map(|c| c.seekable).unwrap_or(false) && hist.iter().filter(|a| matches!(a, Act::SetPos(_))).count() < 2 && !matches!(hist.last(), Some(Act::SetPos(_))) {
            for p in [0usize, 1, crate::util::par_of(self.cfg) + 1] {
                v.push(Act::SetPos(p));
            }
        }
        for &s in &self.sizes {
            // two empty calls in a row add nothing new
            if s == 0 && hist.last() == Some(&Act::Feed(0)) {
                continue;
            }
            if used + s <= self.nmax {
                v.push(Act::Feed(s));
            }
        }
        for f in 1..=14u8 {
            if let Some(n) = self.via_len(f) {
                if used + n <= self.nmax {
                    v.push(Act::Via(f));
                }
            }
        }
        v
    }
    fn run(&self, hist: &[Act]) -> Result<Option<Vec<u8>>, Fail> {
        let g = self.gran;
        let mut obj = self.make(self.iv);
        let mut off = 0usize;
        // absolute block index at which the current instance was created
        let mut base = 0usize;
        for (i, a) in hist.iter().enumerate() {
            match a {
                Act::SetPos(p) => {
                    if base + p + 2 > self.nmax {
                        return Ok(None);
                    }
                    ensure!(obj.set_pos(*p as u128), "MACHINERY", "harness: set_block_pos");
                    off = base + p;
                }
                Act::Dup => match obj.dup() {
                    Some(d) => obj = d,
                    None => return Ok(None),
                },
                Act::Feed(n) => {
                    if off + n > self.nmax {
                        return Ok(None);
                    }
                    let mut buf = self.data[off * g..(off + n) * g].to_vec();
                    obj.feed(&mut buf);
                    let w = &self.want.out[off * g..(off + n) * g];
                    ensure!(buf == w, format!("continuation/{}", self.name), "{} history {:?}: step {} produced {} but an uninterrupted run produces {} (blocks {}..{})", self.ty, hist, i + 1, short(&buf), short(w), off, off + n);
                    off += n;
                }
                Act::Via(f) => {
                    let n = self.via_len(*f).unwrap();
                    if off + n > self.nmax {
                        return Ok(None);
                    }
                    let mut buf = self.data[off * g..(off + n) * g].to_vec();
                    obj.feed_via(*f, &mut buf);
                    let w = &self.want.out[off * g..(off + n) * g];
                    ensure!(buf == w, format!("continuation/{}", self.name), "{} history {:?}: step {} (call form {}) produced {} but an uninterrupted run produces {} (blocks {}..{})", self.ty, hist, i + 1, f, short(&buf), short(w), off, off + n);
                    off += n;
                }
                Act::Reinst => {
                    let s = obj.state();
                    ensure!(s == self.want.states[off], format!("exported_value/{}", self.name), "{} history {:?}: iv_state() after {} blocks is {} but the public chaining value is {}", self.ty, hist, off, short(&s), short(&self.want.states[off]));
                    obj = self.make(&s);
                    base = off;
                }
            }
            if let Some(bp) = obj.block_pos() {
                ensure!(bp == (off - base) as u128, format!("block_position/{}", self.name), "{} history {:?}: get_block_pos() after step {} is {} but the instance has produced / been positioned at {} blocks since it was created", self.ty, hist, i + 1, bp, off - base);
            }
        }
        let s = obj.state();
        ensure!(s == self.want.states[off], format!("exported_value/{}", self.name), "{} history {:?}: iv_state() after {} blocks is {} but the public chaining value is {}", self.ty, hist, off, short(&s), short(&self.want.states[off]));
        // probe: two more blocks
        let pn = (self.data.len() / g - off).min(2);
        let mut buf = self.data[off * g..(off + pn) * g].to_vec();
        obj.feed(&mut buf);
        let w = &self.want.out[off * g..(off + pn) * g];
        ensure!(buf == w, format!("continuation/{}", self.name), "{} history {:?}: the next {} blocks are {} but an uninterrupted run produces {}", self.ty, hist, pn, short(&buf), short(w));
        let mut key = (off as u64).to_le_bytes().to_vec();
        key.extend(s);
        key.extend(buf);
        // history tag (not part of the confluence value): a reinstantiated or cloned object is a state of its own
        // and is expanded like any other, so every continuation is explored BEHIND every chain of cuts instead of
        // being assumed equal to the continuation of the uninterrupted object.  `base` matters to seekable cores
        // only (positions are relative to the instance).
        let cuts = hist.iter().filter(|a| **a == Act::Reinst).count() as u8;
        let dup = hist.contains(&Act::Dup) as u8;
        let seeks = hist.iter().filter(|a| matches!(a, Act::SetPos(_))).count() as u8;
        let seekable = self.core.map(|c| c.seekable).unwrap_or(false);
        key.extend([cuts, dup, if seekable { seeks } else { 0 }, if seekable { base as u8 } else { 0 }]);
        Ok(Some(key))
    }
    fn confluence_class(&self, key: &[u8]) -> Option<Vec<u8>> {
        Some(key[..8].to_vec())
    }
    fn confluence_value<'k>(&self, key: &'k [u8]) -> &'k [u8] {
        &key[..key.len() - 4]
    }
}

#[derive(Clone, Debug, PartialEq)]
pub enum BAct {
    Feed(usize),
    Reinst,
}
struct BufMachine<'a> {
    cfg: &'a Cfg,
    d: &'a BufCfbDesc,
    key: &'a [u8],
    iv: &'a [u8],
    data: &'a [u8],
    want: &'a [u8],
    /// ciphertext side of the stream (what is fed back): output for enc, input for dec
    ct: &'a [u8],
    lens: Vec<usize>,
    max_cuts: usize,
    repr_differs: std::cell::Cell<u64>,
}
impl BufMachine<'_> {
    /// reference (block, pos) after `off` bytes: ciphertext bytes of the partial block followed by the unused keystream bytes
    fn ref_state(&self, off: usize) -> (Vec<u8>, usize) {
        let bs = self.cfg.bs;
        let c = rf::Ciph::new(self.cfg, self.key);
        let full = off / bs;
        let pos = off % bs;
        let prev: Vec<u8> = if full == 0 { self.iv.to_vec() } else { self.ct[(full - 1) * bs..full * bs].to_vec() };
        let ks = c.e(&prev);
        let mut blk = self.ct[full * bs..off].to_vec();
        blk.extend(&ks[pos..]);
        (blk, pos)
    }
}
impl Machine for BufMachine<'_> {
    type Act = BAct;
    fn actions(&self, hist: &[BAct]) -> Vec<BAct> {
        let used: usize = hist.iter().map(|a| if let BAct::Feed(n) = a { *n } else { 0 }).sum();
        let cuts = hist.iter().filter(|a| **a == BAct::Reinst).count();
        let mut v = vec![];
        if cuts < self.max_cuts && hist.last() != Some(&BAct::Reinst) {
            v.push(BAct::Reinst);
        }
        for &l in &self.lens {
            if used + l <= self.data.len() {
                v.push(BAct::Feed(l));
            }
        }
        v
    }
    fn run(&self, hist: &[BAct]) -> Result<Option<Vec<u8>>, Fail> {
        let bs = self.cfg.bs;
        let mut obj = rec::buf(self.cfg, self.d, self.key, self.iv);
        let mut off = 0;
        let check_state = |obj: &dyn BufCfb, off: usize| -> CaseResult {
            let (b, p) = obj.get_state();
            let (wb, wp) = self.ref_state(off);
            // The property prescribes that the exported pair RESUMES correctly, not how the block is
            // represented; a different representation is only counted (today: partial ciphertext block
            // followed by the unused keystream, position = bytes into the block).
            if p != wp || b != wb {
                self.repr_differs.set(self.repr_differs.get() + 1);
            }
            let _ = bs;
            Ok(())
        };
        for (i, a) in hist.iter().enumerate() {
            match a {
                BAct::Feed(n) => {
                    let mut buf = self.data[off..off + n].to_vec();
                    obj.process(&mut buf);
                    ensure!(buf == self.want[off..off + n], format!("continuation/bufcfb-{}", self.d.dir.s()), "{} history {:?}: step {} produced {} but an uninterrupted run produces {} (bytes {}..{})", self.d.ty, hist, i + 1, short(&buf), short(&self.want[off..off + n]), off, off + n);
                    off += n;
                }
                BAct::Reinst => {
                    check_state(&*obj, off)?;
                    let (b, p) = obj.get_state();
                    obj = rec::buf_from_state(self.cfg, self.d, self.key, &b, p);
                }
            }
        }
        check_state(&*obj, off)?;
        let (b, p) = obj.get_state();
        let pn = (bs + bs / 2 + 1).min(self.data.len() - off);
        let mut buf = self.data[off..off + pn].to_vec();
        obj.process(&mut buf);
        ensure!(buf == self.want[off..off + pn], format!("continuation/bufcfb-{}", self.d.dir.s()), "{} history {:?}: the next {} bytes are {} but an uninterrupted run produces {}", self.d.ty, hist, pn, short(&buf), short(&self.want[off..off + pn]));
        let mut key = (off as u64).to_le_bytes().to_vec();
        key.extend(b);
        key.push(p as u8);
        key.extend(buf);
        // history tag: number of export/import cuts so far (see ResumeMachine)
        key.push(hist.iter().filter(|a| **a == BAct::Reinst).count() as u8);
        Ok(Some(key))
    }
    fn confluence_class(&self, key: &[u8]) -> Option<Vec<u8>> {
        Some(key[..8].to_vec())
    }
    fn confluence_value<'k>(&self, key: &'k [u8]) -> &'k [u8] {
        &key[..key.len() - 1]
    }
}

pub fn run(ctx: &Ctx) -> Outcome {
    let cfgs = ctx.cfgs();
    let tier = ctx.tier;
    let seed = ctx.seed;
    let mut units: Vec<(&Cfg, &'static str, Dir)> = vec![];
    for c in &cfgs {
        for (f, d) in fam_dirs(c) {
            units.push((c, f, d));
        }
    }
    let r1 = par_map(&units, |(cfg, fam, dir)| {
        let mut rep = Report::new(format!("{}/{}-{}", cfg.name, fam, dir.s()));
        let bs = cfg.bs;
        let par = par_of(cfg);
        let iv_len = if *fam == "ige" { 2 * bs } else { bs };
        let nmax = tier.pick(2 * par + 2, 3 * par + 3);
        let bm = cfg.block_mode(fam, *dir);
        let core = if matches!(*fam, "cbc" | "pcbc" | "ige" | "cfb" | "cfb8") { None } else { cfg.core(fam) };
        let mut targets: Vec<(Option<&BlockModeDesc>, Option<&CoreDesc>)> = vec![];
        if let Some(b) = bm {
            targets.push((Some(b), None));
            if *fam == "ofb" {
                targets.push((cfg.block_mode("ofb", Dir::Dec), None));
            }
        }
        if let Some(c) = core {
            targets.push((None, Some(c)));
        }
        for key in keys(seed, cfg.key_len).iter().take(tier.pick(1, 2)) {
            for (_ivn, iv) in iv_variants(seed, iv_len) {
                for (_dn, data) in data_variants(seed, 0xC09, (nmax + 2) * bs).into_iter().skip(tier.pick(1, 0)) {
                    for (b, c) in &targets {
                        let g = b.map(|b| b.mbs).unwrap_or(bs);
                        let ty = b.map(|b| b.ty.as_str()).or(c.map(|c| c.ty.as_str())).unwrap();
                        let want = fam_ref(cfg, fam, *dir, key, &iv, &data[..(nmax + 2) * g], g);
                        rep.outcome(&want.out);
                        // 0 = an empty call; PAR and 2*PAR = calls that are an exact multiple of the backend width
                        let mut sizes = vec![0, 1, 2, par, par + 1, 2 * par];
                        sizes.sort();
                        sizes.dedup();
                        // states behind a cut are expanded in their own right (history tag in the key); for seekable cores the
                        // tag also carries the instance base, so wide backends get fewer chained cuts
                        let seekable = c.map(|c| c.seekable).unwrap_or(false);
                        let max_cuts = if seekable && par >= 7 { tier.pick(1, 2) } else if seekable { tier.pick(2, 3) } else { 3 };
                        let m = ResumeMachine { cfg, bm: *b, core: *c, ty, name: format!("{}-{}{}", fam, dir.s(), if c.is_some() { "/core" } else { "" }), key, iv: &iv, data: &data[..(nmax + 2) * g], want: &want, gran: g, nmax, sizes, max_cuts };
                        let st = bfs::bfs(&m, &mut rep, nmax + 4, 100_000, &|| false);
                        rep.count("bfs_states", st.states);
                        rep.count("bfs_transitions", st.transitions);
                        rep.count("bfs_dedup_hits", st.dedup_hits);
                    }
                }
            }
        }
        // encryptor and decryptor that processed corresponding data export equal values at every cut
        if matches!(*fam, "cbc" | "pcbc" | "ige" | "cfb" | "cfb8") && *dir == Dir::Enc {
            let de = cfg.block_mode(fam, Dir::Enc).unwrap();
            let dd = cfg.block_mode(fam, Dir::Dec).unwrap();
            let fe_e = fe_bm(cfg, de);
            let fe_d = fe_bm(cfg, dd);
            let key = &keys(seed, cfg.key_len)[0];
            for (ivn, iv) in iv_variants(seed, iv_len) {
                for (dn, data) in data_variants(seed, 0xC09E, nmax * de.mbs) {
                    rep.case(|| {
                        let pieces: Vec<P> = (0..nmax).map(|_| P { len: de.mbs, kind: Kind::InPlace, single: true, closure: 0 }).collect();
                        let e = (fe_e.run)(key, &iv, &data, &pieces, &data)?;
                        let d = (fe_d.run)(key, &iv, &e.out, &pieces, &data)?;
                        ensure!(d.out == data, format!("roundtrip/{}", fam), "{}: decryptor does not invert encryptor", de.ty);
                        for i in 0..nmax {
                            ensure!(e.states[i] == d.states[i], format!("enc_dec_states_differ/{}", fam), "{} and {} (iv={} data={}): after {} corresponding blocks the encryptor exports {} and the decryptor {}", de.ty, dd.ty, ivn, dn, i + 1, short(&e.states[i]), short(&d.states[i]));
                        }
                        Ok(())
                    });
                }
            }
        }
        rep.sample(case_json(vec![("family", (*fam).into()), ("dir", dir.s().into()), ("cfg", cfg.name.as_str().into()), ("actions", J::Arr(vec!["feed(0|1|2|PAR|PAR+1|2*PAR blocks) through the multi-block call".into(), "via(single-block call in place / b2b)".into(), "via(write_keystream_block / write_keystream_blocks(PAR+1)) [cores]".into(), "via(caller-supplied closure, five shapes, PAR / PAR+1 blocks)".into(), "set_block_pos(0|1|PAR+1) [seekable cores]".into(), "clone".into(), "reinstantiate(iv_state -> inner_iv_init)".into()])), ("example_history", "[Feed(2), Reinst, Via(6), SetPos(1), Reinst, Feed(1)]".into()), ("max_blocks", nmax.into()), ("max_cuts_per_history", "3 (seekable cores: 2 quick / 3 thorough; width >= 7: 1 / 2)".into())]));
        rep.finish()
    });
    // buffered CFB: every byte position
    let bunits: Vec<(&Cfg, &BufCfbDesc)> = cfgs.iter().flat_map(|c| c.bufcfb.iter().map(move |d| (*c, d))).collect();
    let r2 = par_map(&bunits, |(cfg, d)| {
        let mut rep = Report::new(format!("{}/bufcfb-{}", cfg.name, d.dir.s()));
        let bs = cfg.bs;
        let l = tier.pick(3 * bs + 2, 4 * bs + 3);
        for key in keys(seed, cfg.key_len).iter().take(tier.pick(1, 2)) {
            for (_ivn, iv) in iv_variants(seed, bs) {
                for (_dn, data) in data_variants(seed, 0xC09B, l).into_iter().skip(tier.pick(1, 0)) {
                    let want = family_ref(cfg, "cfb", d.dir, key, &iv, &data).0;
                    let ct: &[u8] = if d.dir == Dir::Enc { &want } else { &data };
                    let lens: Vec<usize> = if bs <= 4 { (1..=2 * bs + 1).collect() } else { vec![1, 2, bs - 1, bs, bs + 1, 2 * bs + 1] };
                    let m = BufMachine { cfg, d, key, iv: &iv, data: &data, want: &want, ct, lens, max_cuts: 3, repr_differs: Default::default() };
                    let st = bfs::bfs(&m, &mut rep, 2 * l + 4, 200_000, &|| false);
                    rep.count("bfs_states", st.states);
                    rep.count("bfs_transitions", st.transitions);
                    rep.count("bfs_dedup_hits", st.dedup_hits);
                    rep.count("bufcfb_exported_representation_differs_from_reference", m.repr_differs.get());
                    // long input: a short piece, then a LONG piece (completing a block and carrying many whole
                    // blocks), then export/import, then the rest; exported state compared with the reference
                    {
                        let ll = long_blocks(par_of(cfg)) * bs + bs / 2 + 1;
                        let ldata = pattern(seed, 0xC09C, ll);
                        let lwant = family_ref(cfg, "cfb", d.dir, key, &iv, &ldata).0;
                        let lct: &[u8] = if d.dir == Dir::Enc { &lwant } else { &ldata };
                        let lm = BufMachine { cfg, d, key, iv: &iv, data: &ldata, want: &lwant, ct: lct, lens: vec![], max_cuts: 0, repr_differs: Default::default() };
                        let pts = boundary_points(bs, ll);
                        for &a in pts.iter().filter(|a| **a <= 2 * bs + 1) {
                            for &b in pts.iter().filter(|b| **b > a) {
                                rep.case(|| {
                                    let mut o = rec::buf(cfg, d, key, &iv);
                                    let mut out = ldata.clone();
                                    o.process(&mut out[..a]);
                                    o.process(&mut out[a..b]);
                                    let (blk, pos) = o.get_state();
                                    let (wb, wp) = lm.ref_state(b);
                                    if pos != wp || blk != wb {
                                        lm.repr_differs.set(lm.repr_differs.get() + 1);
                                    }
                                    let mut o2 = rec::buf_from_state(cfg, d, key, &blk, pos);
                                    o2.process(&mut out[b..]);
                                    ensure!(out == lwant, format!("cut_point/bufcfb-{}", d.dir.s()), "{}: pieces [{}, {}], export/import, rest: output {} want {} (first diff at byte {:?})", d.ty, a, b - a, short(&out), short(&lwant), first_diff(&out, &lwant));
                                    Ok(())
                                });
                            }
                        }
                    }
                    // every single cut point explicitly (stateless): run(m[..k]); export; import; run(m[k..])
                    for k in 0..=l {
                        rep.case(|| {
                            let mut a = rec::buf(cfg, d, key, &iv);
                            let mut out = data.clone();
                            a.process(&mut out[..k]);
                            let (b, p) = a.get_state();
                            let mut a2 = rec::buf_from_state(cfg, d, key, &b, p);
                            a2.process(&mut out[k..]);
                            ensure!(out == want, format!("cut_point/bufcfb-{}", d.dir.s()), "{}: export/import at byte {} of {} changes the output: {} want {}", d.ty, k, l, short(&out), short(&want));
                            Ok(())
                        });
                    }
                }
            }
        }
        rep.finish()
    });
    let mut o = merge(r1);
    extend(&mut o, merge(r2));
    o.rule = "merged BFS per IvState type (cbc, pcbc, ige, cfb, cfb8 x enc/dec; OfbCore as encryptor/decryptor/core; the six CtrCore; BeltCtrCore) over actions {feed 0, 1, 2, PAR, PAR+1, 2*PAR blocks through the multi-block call; one block through the single-block call (in place, buffer to buffer); write_keystream_block / write_keystream_blocks (cores); caller-supplied closures over PAR and PAR+1 blocks; set_block_pos and clone; reinstantiate = iv_state() -> inner_iv_init under the same key} with <= 3 cuts per history, and per buffered CFB type over {feed l bytes; get_state() -> from_state()}; invariants on every history: output equals the uninterrupted run, the exported value equals the reference public chaining value at that offset, reinstantiation does not change the canonical state (singleton state per offset; key = offset, exported value, two-block probe); stateless: every single byte cut point for buffered CFB; encryptor and decryptor fed corresponding data export equal values after every block".into();
    o.configs = cfgs.iter().map(|c| c.name.clone()).collect();
    o.bounds = vec![("max_blocks".into(), J::Str(tier.pick("2*PAR+2", "3*PAR+3").into())), ("bufcfb_len".into(), J::Str(tier.pick("3*bs+2", "4*bs+3").into())), ("max_cuts".into(), J::Str("3; seekable cores 2 (quick) / 3 (thorough); seekable cores with width >= 7: 1 / 2".into()))];
    o.assumptions = vec!["CTR resumption restarts the block count; continuation is compared on the range the original could still produce (far from the limit here; the limit is C11's subject)".into()];
    o
}
