//! C11 — a keystream never wraps around silently: exhaustion is an error, not reuse.
use crate::bfs;
use crate::ctx::*;
use crate::ensure;
use crate::rec;
use crate::seekm::*;
use crate::util::*;
use base::api::*;
use base::json::J;
use base::refmodel as rf;
use base::toy;

pub fn run(ctx: &Ctx) -> Outcome {
    let cfgs = ctx.cfgs();
    let tier = ctx.tier;
    let seed = ctx.seed;
    let units: Vec<(&Cfg, &CoreDesc)> = cfgs.iter().flat_map(|c| c.cores.iter().filter(|d| d.seekable).map(move |d| (*c, d))).collect();
    let reports = par_map(&units, |(cfg, d)| {
        let mut rep = Report::new(format!("{}/{}", cfg.name, d.mode));
        let bs = cfg.bs;
        let b = bs as u128;
        let par = par_of(cfg);
        let w = 2 * par + 2;
        let lim = rf::ctr_limit_blocks(d.w);
        let key = &keys(seed, cfg.key_len)[0];
        let data = pattern(seed, 0xC11, (w + 2) * bs + 8);
        let mut lens = vec![0, 1, bs - 1, bs, bs + 1, 2 * bs, par * bs, (par + 1) * bs, w * bs - 1, w * bs, w * bs + 1, (w + 1) * bs];
        lens.sort();
        lens.dedup();
        let applies: Vec<(usize, Kind)> = lens.iter().flat_map(|&n| KINDS.iter().map(move |k| (n, *k))).collect();
        // byte seeks around (and past) the end, when the end is a representable byte position
        let mut seeks: Vec<(SeekTy, u128)> = vec![];
        if let Some(end) = lim.checked_mul(b) {
            let mut ps = vec![0, b + 1, end - 2 * b, end - b - 1, end - b, end - 1, end, end + 1, end + b - 1, end + b];
            if bs > 2 {
                ps.push(end + b / 2);
            }
            ps.sort();
            ps.dedup();
            for p in ps {
                for t in [SeekTy::U64, SeekTy::U128] {
                    if p <= t.max() {
                        seeks.push((t, p));
                    }
                }
            }
        }
        let depth = tier.pick(3, 4);
        let cap = tier.pick(3_000, 30_000);
        for (ivn, iv) in iv_variants(seed, bs).into_iter().skip(tier.pick(2, 1)) {
            let mut inits = vec![Init::Fresh];
            for k in 0..=w as u128 {
                inits.push(Init::CoreAt(lim - k));
                if k >= 1 {
                    inits.push(Init::CoreAtPlus1(lim - k));
                }
            }
            for init in inits {
                let fresh = init == Init::Fresh;
                let m = SeekMachine { cfg, d, key, iv: &iv, data: &data, init: init.clone(), seeks: seeks.clone(), applies: applies.clone(), check_log: true };
                let st = bfs::bfs(&m, &mut rep, if fresh { depth } else { depth - 1 }, cap, &|| ctx.over_cap());
                // completeness cross-check (only when the run met nothing but the listed known findings)
                if !st.capped && rep.violations.keys().all(|k| k.starts_with("request_beyond_limit_succeeded/after_seek_past_end") || k.starts_with("partial_")) {
                    let model = m.model_reachable(if fresh { depth } else { depth - 1 });
                    let found = SeekMachine::positions_of_keys(&st.keys);
                    rep.count("model_states_cross_checked", model.len() as u64);
                    if model != found {
                        rep.machinery_errors.push(format!("explorer completeness cross-check failed for {} {} init {:?}: the reference model reaches {} positions, the explorer found {} (first difference: {:?})", cfg.name, d.mode, init, model.len(), found.len(), model.symmetric_difference(&found).next()));
                    }
                }
                rep.count("bfs_states", st.states);
                rep.count("bfs_transitions", st.transitions);
                rep.count("bfs_dedup_hits", st.dedup_hits);
                if st.capped {
                    rep.notes.push(format!("state cap reached for {} {} iv={} init={:?}: depth {} completed", cfg.name, d.mode, ivn, init, st.depth_completed));
                }
            }
            // core level: try_apply_keystream_partial with k blocks remaining, and remaining_blocks() itself
            let c = rf::Ciph::new(cfg, key);
            for k in 0..=w as u128 {
                rep.case(|| {
                    let mut core = rec::core(cfg, d, key, &iv);
                    ensure!(core.set_block_pos(lim - k), "MACHINERY", "harness: block position does not fit");
                    let want = if k <= usize::MAX as u128 { Some(k as usize) } else { None };
                    let got = core.remaining_blocks();
                    ensure!(got == want, format!("remaining_blocks_inexact/{}/core", d.mode), "{} positioned {} blocks before the limit: remaining_blocks() = {:?}", d.ty, k, got);
                    ensure!(core.get_block_pos() == Some(lim - k), format!("block_position_wrong/{}/core", d.mode), "{}: get_block_pos() after set_block_pos({}) is {:?}", d.ty, lim - k, core.get_block_pos());
                    Ok(())
                });
                for &n in &lens {
                    for kind in [Kind::InPlace, Kind::B2b] {
                        rep.case(|| {
                            let mut core = rec::core(cfg, d, key, &iv);
                            ensure!(core.set_block_pos(lim - k), "MACHINERY", "harness: block position does not fit");
                            let inp = &data[..n];
                            let before = if kind.in_place() { inp.to_vec() } else { dirty(n) };
                            let mut out = before.clone();
                            toy::log_start();
                            let r = core.partial(kind, inp, &mut out);
                            let log = toy::log_take();
                            let need = n.div_ceil(bs) as u128;
                            // the block count the cipher crate's try_apply_keystream_partial computes (`%` where `/` is meant):
                            // a disagreement that this miscount explains is the known dependency finding, anything else is not
                            let miscount = if n % bs == 0 { 0 } else { (n % bs + 1) as u128 };
                            let shape = if (miscount <= k) != (need <= k) { "modulo_block_count" } else { "other" };
                            if need <= k {
                                ensure!(r.is_ok(), format!("partial_within_limit_refused/{}/{}", shape, d.mode), "{} with {} blocks remaining: try_apply_keystream_partial({} bytes) needs {} block(s) but returned Err", d.ty, k, n, need);
                                let ks = if d.mode == "belt" { rf::belt_ks(&c, &iv, lim - k, 0, n) } else { rf::ctr_ks(&c, &iv, d.w, d.be, lim - k, 0, n) };
                                let want = rf::x(inp, &ks);
                                ensure!(out == want, format!("keystream_wrong/{}/partial", d.mode), "{} with {} blocks remaining: try_apply_keystream_partial({} bytes) produced {} want {}", d.ty, k, n, short(&out), short(&want));
                                if cfg.is_toy() {
                                    let got: Vec<Vec<u8>> = log.iter().filter(|l| l.dir == b'E').map(|l| l.input.clone()).collect();
                                    let want_blocks: Vec<Vec<u8>> = (0..need).map(|j| { let idx = lim - k + j; if d.mode == "belt" { rf::belt_counter_block(&c, &iv, idx) } else { rf::ctr_block(&iv, d.w, d.be, idx) } }).collect();
                                    ensure!(first_missing(&got, &want_blocks).is_none(), format!("counter_block_wrong/{}/partial", d.mode), "{}: a counter block of indices {}.. was never fed to E; E received [{}]", d.ty, lim - k, got.iter().take(6).map(|b| short(b)).collect::<Vec<_>>().join(" "));
                                }
                            } else {
                                ensure!(r.is_err(), format!("partial_beyond_limit_succeeded/{}/{}", shape, d.mode), "{} with {} blocks remaining: try_apply_keystream_partial({} bytes) needs {} blocks but returned Ok (the counter wraps and keystream is reused)", d.ty, k, n, need);
                                ensure!(out == before, format!("failed_request_wrote/{}/partial", d.mode), "{}: the refused partial request modified the buffer", d.ty);
                            }
                            Ok(())
                        });
                    }
                }
            }
        }
        rep.sample(case_json(vec![("type", format!("StreamCipherCoreWrapper<{}>", d.ty).into()), ("limit_blocks", J::Str(lim.to_string())), ("start_states", J::Str(format!("fresh; set_block_pos(limit-k) + from_core for k=0..={w}, each also with one byte consumed"))), ("lengths", J::Arr(lens.iter().map(|l| (*l).into()).collect())), ("seeks", J::Arr(seeks.iter().map(|(t, p)| J::Str(format!("{}:{}", t.s(), p))).collect())), ("example_history", hs(&[SAct::Apply(bs + 1, Kind::InPlace), SAct::Apply(w * bs, Kind::B2b)]).into())]));
        rep.finish()
    });
    let mut o = merge(reports);
    o.rule = "merged BFS of the seek/exhaustion machine per seekable byte-level cipher from the fresh state and from states within W = 2*PAR+2 blocks of the limit (core set_block_pos(limit-k) + from_core, with an empty and a partially consumed buffer): actions {try_apply_keystream / apply_keystream_b2b / try_apply_keystream_inout of n bytes for n ending before / exactly at / after the limit; byte seeks to END-2bs .. END+bs and to the first block index that does not fit the counter}; invariants: a request succeeds iff it fits in the 2^w-1 (BelT 2^128-1) blocks counted from the reference position (after an accepted seek past the end every non-empty request must fail); a failed request leaves data and position untouched; remaining_blocks() exact whenever Some; every counter block fed to the harness cipher equals layout(IV, index) with index < limit and no counter block is used for two indices; stateless: try_apply_keystream_partial on the core with k = 0..W blocks remaining x every length class. A violating branch is not expanded further".into();
    o.configs = cfgs.iter().map(|c| c.name.clone()).collect();
    o.bounds = vec![("depth_from_fresh".into(), J::Int(tier.pick(3, 4))), ("depth_from_near_limit".into(), J::Int(tier.pick(2, 3))), ("window_blocks".into(), J::Str("2*PAR+2".into())), ("state_cap_per_machine".into(), J::Int(tier.pick(3_000, 30_000)))];
    o.assumptions = vec!["byte seeks cannot address the last blocks of the 128-bit flavours and BelT (positions exceed u128); those are reached through the core".into()];
    o
}
