//! C13 — bad lengths are rejected without side effects; no public operation panics.
use crate::ctx::*;
use crate::ensure;
use crate::fe::*;
use crate::rec;
use crate::util::*;
use base::api::*;
use base::json::J;

fn bad_out_lens(l: usize, step: usize, extra: usize) -> Vec<usize> {
    // every wrong output length on the call's granule from 0 to l + extra (not a sample of them); coarse for long inputs
    let mut v: Vec<usize> = if (l + extra) / step.max(1) <= 48 { (0..=(l + extra) / step.max(1)).map(|i| i * step.max(1)).collect() } else { vec![0, l.saturating_sub(step), l + step, l + extra] };
    v.sort();
    v.dedup();
    v.retain(|&x| x != l);
    v
}

pub fn run(ctx: &Ctx) -> Outcome {
    let cfgs = ctx.cfgs_with_sweep();
    let tier = ctx.tier;
    let seed = ctx.seed;
    let reports = par_map(&cfgs, |cfg| {
        let mut rep = Report::new(format!("{}/rejections", cfg.name));
        let bs = cfg.bs;
        let key = keys(seed, cfg.key_len)[0].clone();
        let iv = pattern(seed, 0x1717, bs);
        let data = pattern(seed, 0xC13, (par_of(cfg) + 8) * bs + 8);
        for tag in ["cts_short", "unequal_b2b", "padded_nonmultiple", "ctor_lengths", "panic_sweep"] {
            rep.outcome(format!("{}:{}:{}", cfg.name, tag, cfg.bs).as_bytes());
        }
        // ---- (1) ciphertext stealing: every length below one block is refused, buffers untouched ----
        for d in &cfg.cts {
            for dir in [Dir::Enc, Dir::Dec] {
                for k in KINDS {
                    for l in 0..bs {
                        rep.case(|| {
                            let m = &data[..l];
                            let before = if k.in_place() { m.to_vec() } else { dirty(l) };
                            let mut out = before.clone();
                            let r = rec::cts(cfg, d, Ctor::Inner, false, dir, k, &key, &iv, m, &mut out).expect("harness: ctor");
                            ensure!(r.is_err(), format!("short_message_accepted/{}", d.name), "{} {}({}) accepted a {}-byte message (block size {})", d.ty, dir.s(), k.s(), l, bs);
                            ensure!(out == before, format!("rejected_call_wrote/{}", d.name), "{} {}({}) refused {} bytes but modified the buffer: {} -> {}", d.ty, dir.s(), k.s(), l, short(&before), short(&out));
                            Ok(())
                        });
                    }
                    // unequal buffer lengths
                    if !k.in_place() {
                        for l in [bs, bs + 1, 2 * bs, 2 * bs + bs / 2 + 1] {
                            for ol in bad_out_lens(l, 1, bs) {
                                rep.case(|| {
                                    let m = &data[..l];
                                    let before = dirty(ol);
                                    let mut out = before.clone();
                                    let r = rec::cts(cfg, d, Ctor::Inner, false, dir, k, &key, &iv, m, &mut out).expect("harness: ctor");
                                    ensure!(r.is_err(), format!("unequal_lengths_accepted/{}", d.name), "{} {}_{} accepted {} input bytes with a {}-byte output buffer", d.ty, dir.s(), k.s(), l, ol);
                                    ensure!(out == before, format!("rejected_call_wrote/{}", d.name), "{} {}_{} refused ({} in, {} out) but modified the output buffer", d.ty, dir.s(), k.s(), l, ol);
                                    Ok(())
                                });
                            }
                        }
                    }
                }
            }
        }
        // ---- (2) unequal lengths on every unpadded buffer-to-buffer entry point ---------------------
        for d in &cfg.block_modes {
            let ivm = if d.iv_len == bs { iv.clone() } else { pattern(seed, 0x1718, d.iv_len) };
            for k in [Kind::B2b, Kind::InOut] {
                for n in [0usize, 1, 2, par_of(cfg) + 1] {
                    let l = n * d.mbs;
                    for ol in bad_out_lens(l, d.mbs, 2 * d.mbs) {
                        rep.case(|| {
                            let m = &data[..l];
                            let mut a = rec::bm(cfg, d, &key, &ivm);
                            let mut b = rec::bm(cfg, d, &key, &ivm);
                            // a common prefix so that the state is not the initial one
                            let mut pa = data[l..l + d.mbs].to_vec();
                            let mut pb = pa.clone();
                            a.one(Kind::InPlace, &[], &mut pa);
                            b.one(Kind::InPlace, &[], &mut pb);
                            let before = dirty(ol);
                            let mut out = before.clone();
                            let r = a.many(k, m, &mut out);
                            ensure!(r.is_err(), format!("unequal_lengths_accepted/{}-{}", d.mode, d.dir.s()), "{} blocks_{} accepted {} input bytes with a {}-byte output buffer", d.ty, k.s(), l, ol);
                            ensure!(out == before, format!("rejected_call_wrote/{}-{}", d.mode, d.dir.s()), "{} blocks_{} refused ({} in, {} out) but modified the output buffer", d.ty, k.s(), l, ol);
                            ensure!(a.iv_state() == b.iv_state(), format!("rejected_call_changed_state/{}-{}", d.mode, d.dir.s()), "{} blocks_{} refused ({} in, {} out) but the chaining state changed", d.ty, k.s(), l, ol);
                            let mut qa = data[..2 * d.mbs].to_vec();
                            let mut qb = qa.clone();
                            let _ = a.many(Kind::InPlace, &[], &mut qa);
                            let _ = b.many(Kind::InPlace, &[], &mut qb);
                            ensure!(qa == qb, format!("rejected_call_changed_state/{}-{}", d.mode, d.dir.s()), "{} blocks_{} refused ({} in, {} out) but later output changed", d.ty, k.s(), l, ol);
                            Ok(())
                        });
                        // one-shot forms
                        if matches!(d.mode, "cfb" | "cfb8") {
                            rep.case(|| {
                                let m = &data[..l.max(1) + 1];
                                let ol2 = if ol == m.len() { ol + 1 } else { ol };
                                let a = rec::bm(cfg, d, &key, &ivm);
                                let before = dirty(ol2);
                                let mut out = before.clone();
                                let r = a.oneshot(k, m, &mut out).expect("harness: async");
                                ensure!(r.is_err(), format!("unequal_lengths_accepted/{}-{}/oneshot", d.mode, d.dir.s()), "{} one-shot {} accepted {} input bytes with a {}-byte output buffer", d.ty, k.s(), m.len(), ol2);
                                ensure!(out == before, format!("rejected_call_wrote/{}-{}/oneshot", d.mode, d.dir.s()), "{} one-shot {} refused but modified the output buffer", d.ty, k.s());
                                Ok(())
                            });
                        }
                    }
                }
            }
            // ---- (3) padded decryption of a non-multiple length -------------------------------------
            if d.dir == Dir::Dec && d.mbs > 1 {
                for pad in PADS {
                    for k in KINDS {
                        for l in (if d.mbs <= 32 { (1..=3 * d.mbs).collect::<Vec<usize>>() } else { vec![1usize, d.mbs - 1, d.mbs + 1, 2 * d.mbs - 1, 2 * d.mbs + d.mbs / 2 + 1] }) {
                            if l % d.mbs == 0 {
                                continue;
                            }
                            rep.case(|| {
                                let m = &data[..l];
                                let a = rec::bm(cfg, d, &key, &ivm);
                                let before = if k.in_place() { m.to_vec() } else { dirty(l) };
                                let mut out = before.clone();
                                let r = a.padded(pad, k, m, &mut out);
                                ensure!(r.is_err(), format!("padded_dec_nonmultiple_accepted/{}", d.mode), "{} decrypt_padded<{}>({}) accepted {} bytes (block size {})", d.ty, pad.s(), k.s(), l, d.mbs);
                                ensure!(out == before, format!("rejected_call_wrote/{}-dec/padded", d.mode), "{} decrypt_padded<{}>({}) refused {} bytes but modified the buffer", d.ty, pad.s(), k.s(), l);
                                Ok(())
                            });
                        }
                    }
                }
            }
            // ---- (4) construction from slices of the wrong length -----------------------------------
            for ctor in [Ctor::Slices, Ctor::InnerSlice] {
                for ivl in (0..=2 * d.iv_len + 1).filter(|l| *l != d.iv_len) {
                    if ivl == d.iv_len {
                        continue;
                    }
                    rep.case(|| {
                        let r = rec::new_bm(cfg, d, ctor, &key, &data[..ivl]);
                        ensure!(r.is_err(), format!("bad_iv_length_accepted/{}-{}", d.mode, d.dir.s()), "{}::{} accepted a {}-byte IV (expected {})", d.ty, ctor.s(), ivl, d.iv_len);
                        Ok(())
                    });
                }
                rep.case(|| {
                    let r = rec::new_bm(cfg, d, ctor, &key, &data[..d.iv_len]);
                    ensure!(r.is_ok(), format!("good_iv_length_refused/{}-{}", d.mode, d.dir.s()), "{}::{} refused a {}-byte IV", d.ty, ctor.s(), d.iv_len);
                    Ok(())
                });
                if ctor == Ctor::Slices {
                    for kl in (0..=2 * cfg.key_len + 1).filter(|l| *l != cfg.key_len) {
                        rep.case(|| {
                            let r = rec::new_bm(cfg, d, ctor, &data[..kl], &ivm);
                            ensure!(r.is_err(), format!("bad_key_length_accepted/{}-{}", d.mode, d.dir.s()), "{}::{} accepted a {}-byte key (expected {})", d.ty, ctor.s(), kl, cfg.key_len);
                            Ok(())
                        });
                    }
                }
            }
        }
        for d in &cfg.cores {
            for ctor in [Ctor::Slices, Ctor::InnerSlice] {
                for ivl in (0..=2 * bs + 1).filter(|l| *l != bs) {
                    rep.case(|| {
                        ensure!(rec::new_core(cfg, d, ctor, &key, &data[..ivl]).is_err(), format!("bad_iv_length_accepted/{}", d.mode), "{}::{} accepted a {}-byte IV", d.ty, ctor.s(), ivl);
                        ensure!(rec::new_stream(cfg, d, ctor, &key, &data[..ivl]).is_err(), format!("bad_iv_length_accepted/{}/stream", d.mode), "StreamCipherCoreWrapper<{}>::{} accepted a {}-byte IV", d.ty, ctor.s(), ivl);
                        Ok(())
                    });
                }
                if ctor == Ctor::Slices {
                    for kl in (0..=2 * cfg.key_len + 1).filter(|l| *l != cfg.key_len) {
                        rep.case(|| {
                            ensure!(rec::new_core(cfg, d, ctor, &data[..kl], &iv).is_err(), format!("bad_key_length_accepted/{}", d.mode), "{}::{} accepted a {}-byte key", d.ty, ctor.s(), kl);
                            ensure!(rec::new_stream(cfg, d, ctor, &data[..kl], &iv).is_err(), format!("bad_key_length_accepted/{}/stream", d.mode), "StreamCipherCoreWrapper<{}>::{} accepted a {}-byte key", d.ty, ctor.s(), kl);
                            Ok(())
                        });
                    }
                }
            }
            // unequal lengths: byte-level b2b/inout and core inout; position and later output must not move
            for k in [Kind::B2b, Kind::InOut] {
                for l in [0usize, 1, bs, bs + 1, 2 * bs + 1] {
                    for ol in bad_out_lens(l, 1, bs) {
                        rep.case(|| {
                            let m = &data[..l];
                            let mut a = rec::stream(cfg, d, &key, &iv);
                            let mut b = rec::stream(cfg, d, &key, &iv);
                            let mut pa = data[..bs / 2 + 1].to_vec();
                            let mut pb = pa.clone();
                            let _ = a.apply(Kind::InPlace, &[], &mut pa);
                            let _ = b.apply(Kind::InPlace, &[], &mut pb);
                            let before = dirty(ol);
                            let mut out = before.clone();
                            let r = a.apply(k, m, &mut out);
                            ensure!(r.is_err(), format!("unequal_lengths_accepted/{}/stream", d.mode), "StreamCipherCoreWrapper<{}> apply_{} accepted {} input bytes with a {}-byte output buffer", d.ty, k.s(), l, ol);
                            ensure!(out == before, format!("rejected_call_wrote/{}/stream", d.mode), "StreamCipherCoreWrapper<{}> apply_{} refused ({} in, {} out) but modified the output buffer", d.ty, k.s(), l, ol);
                            ensure!(a.pos(SeekTy::U128) == b.pos(SeekTy::U128) && a.core_block_pos() == b.core_block_pos(), format!("rejected_call_changed_state/{}/stream", d.mode), "StreamCipherCoreWrapper<{}> apply_{} refused but the position moved", d.ty, k.s());
                            let mut qa = data[..bs + 2].to_vec();
                            let mut qb = qa.clone();
                            let _ = a.apply(Kind::InPlace, &[], &mut qa);
                            let _ = b.apply(Kind::InPlace, &[], &mut qb);
                            ensure!(qa == qb, format!("rejected_call_changed_state/{}/stream", d.mode), "StreamCipherCoreWrapper<{}> apply_{} refused but later keystream changed", d.ty, k.s());
                            Ok(())
                        });
                    }
                }
                for n in [0usize, 1, 2] {
                    for on in bad_out_lens(n * bs, bs, 2 * bs) {
                        rep.case(|| {
                            let m = &data[..n * bs];
                            let mut a = rec::core(cfg, d, &key, &iv);
                            let mut b = rec::core(cfg, d, &key, &iv);
                            let before = dirty(on);
                            let mut out = before.clone();
                            let r = a.apply_blocks(k, m, &mut out);
                            ensure!(r.is_err(), format!("unequal_lengths_accepted/{}/core", d.mode), "{} apply_keystream_blocks_inout accepted {} input bytes with {} output bytes", d.ty, n * bs, on);
                            ensure!(out == before, format!("rejected_call_wrote/{}/core", d.mode), "{} refused unequal buffers but modified the output", d.ty);
                            let mut qa = data[..2 * bs].to_vec();
                            let mut qb = qa.clone();
                            let _ = a.apply_blocks(Kind::InPlace, &[], &mut qa);
                            let _ = b.apply_blocks(Kind::InPlace, &[], &mut qb);
                            ensure!(qa == qb && a.iv_state() == b.iv_state(), format!("rejected_call_changed_state/{}/core", d.mode), "{} refused unequal buffers but its state changed", d.ty);
                            Ok(())
                        });
                    }
                }
            }
        }
        for d in &cfg.bufcfb {
            for ctor in [Ctor::Slices, Ctor::InnerSlice] {
                for ivl in (0..=2 * bs + 1).filter(|l| *l != bs) {
                    rep.case(|| {
                        ensure!(rec::new_buf(cfg, d, ctor, &key, &data[..ivl]).is_err(), format!("bad_iv_length_accepted/bufcfb-{}", d.dir.s()), "{}::{} accepted a {}-byte IV", d.ty, ctor.s(), ivl);
                        Ok(())
                    });
                }
            }
        }
        for d in &cfg.cts {
            for ctor in [Ctor::Slices, Ctor::InnerSlice] {
                if d.cbc {
                    for ivl in (0..=2 * bs + 1).filter(|l| *l != bs) {
                        rep.case(|| {
                            let mut out = data[..bs].to_vec();
                            ensure!(rec::cts(cfg, d, ctor, false, Dir::Enc, Kind::InPlace, &key, &data[..ivl], &[], &mut out).is_err(), format!("bad_iv_length_accepted/{}", d.name), "{}::{} accepted a {}-byte IV", d.ty, ctor.s(), ivl);
                            Ok(())
                        });
                    }
                }
                if ctor == Ctor::Slices {
                    for kl in (0..=2 * cfg.key_len + 1).filter(|l| *l != cfg.key_len) {
                        rep.case(|| {
                            let mut out = data[..bs].to_vec();
                            ensure!(rec::cts(cfg, d, ctor, false, Dir::Enc, Kind::InPlace, &data[..kl], &iv, &[], &mut out).is_err(), format!("bad_key_length_accepted/{}", d.name), "{}::{} accepted a {}-byte key", d.ty, ctor.s(), kl);
                            Ok(())
                        });
                    }
                }
            }
        }
        rep.finish()
    });
    // ---- (5) panic sweep: every front-end x every length x every call form, plus counters and states
    // the very wide backends (set 'w') join with a light sweep: lengths around one and two full batches only
    let mut sweep_units: Vec<&Cfg> = cfgs.clone();
    sweep_units.extend(ctx.reg.cfgs.iter().filter(|c| c.sets.contains('w')));
    let r2 = par_map(&sweep_units, |cfg| {
        let mut rep = Report::new(format!("{}/panic-sweep", cfg.name));
        let bs = cfg.bs;
        let par = par_of(cfg);
        let key = keys(seed, cfg.key_len)[1].clone();
        let lmax = if cfg.sets.contains('s') { 2 * bs + 1 } else { tier.pick((par + 2) * bs + 1, (2 * par + 2) * bs + 1).max(3 * bs + 2) };
        let data = pattern(seed, 0xC13F, lmax.max((2 * par + 1) * bs) + 2 * bs);
        let pre = dirty(lmax.max((2 * par + 1) * bs) + 2 * bs);
        let wide = cfg.sets.contains('w');
        let lens: Vec<usize> = if wide { vec![0, 1, bs, par * bs - 1, par * bs, par * bs + 1, (par + 1) * bs + 3, 2 * par * bs, (2 * par + 1) * bs] } else if bs <= 32 { (0..=lmax).collect() } else { byte_lengths(bs, lmax) };
        let fams = ["cbc", "pcbc", "ige", "cfb", "cfb8", "ofb", "ctr32be", "ctr32le", "ctr64be", "ctr64le", "ctr128be", "ctr128le", "belt"];
        for fam in fams {
            for dir in [Dir::Enc, Dir::Dec] {
                if dir == Dir::Dec && !matches!(fam, "cbc" | "pcbc" | "ige" | "cfb" | "cfb8") {
                    continue;
                }
                let iv = pattern(seed, 0x1717, if fam == "ige" { 2 * bs } else { bs });
                for fe in family_frontends(cfg, fam, dir) {
                    for &l in &lens {
                        if l % fe.gran != 0 {
                            continue;
                        }
                        for &k in &fe.kinds {
                            rep.case(|| (fe.run)(&key, &iv, &data[..l], &[p(l, k)], &pre).map(|_| ()));
                        }
                        if fe.multi && l > 0 && l <= 4 * bs {
                            let pieces: Vec<P> = (0..l / fe.gran).map(|_| P { len: fe.gran, kind: fe.kinds[0], single: fe.singles, closure: 0 }).collect();
                            rep.case(|| (fe.run)(&key, &iv, &data[..l], &pieces, &pre).map(|_| ()));
                        }
                    }
                }
            }
        }
        let iv = pattern(seed, 0x1717, bs);
        for d in &cfg.cts {
            for dir in [Dir::Enc, Dir::Dec] {
                let fe = fe_cts(cfg, d, dir);
                for &l in &lens {
                    if l < bs {
                        continue;
                    }
                    for k in KINDS {
                        rep.case(|| (fe.run)(&key, &iv, &data[..l], &[p(l, k)], &pre).map(|_| ()));
                    }
                }
            }
        }
        // buffered CFB resumed from every valid exported position
        for d in &cfg.bufcfb {
            for pos in 0..bs {
                for l in [0usize, 1, bs - pos, bs - pos + 1, bs, 2 * bs + 1] {
                    rep.case(|| {
                        let mut o = rec::buf_from_state(cfg, d, &key, &iv, pos);
                        let mut buf = data[..l].to_vec();
                        o.process(&mut buf);
                        // whatever the object exports now is a valid exported state by definition (its representation is the
                        // implementation's business): resuming from it and processing 1 / bs+1 bytes must not panic either
                        let (b2, p2) = o.get_state();
                        for l2 in [1usize, bs + 1] {
                            let mut o2 = rec::buf_from_state(cfg, d, &key, &b2, p2);
                            let mut buf2 = data[..l2].to_vec();
                            o2.process(&mut buf2);
                            let _ = o2.get_state();
                        }
                        Ok(())
                    });
                }
            }
        }
        // counters: every seekable type at the extreme block positions, all position types
        for d in cfg.cores.iter().filter(|d| d.seekable) {
            let lim = base::refmodel::ctr_limit_blocks(d.w);
            for bp in [0u128, 1, lim / 2, lim - 1, lim] {
                rep.case(|| {
                    let mut c = rec::core(cfg, d, &key, &iv);
                    ensure!(c.set_block_pos(bp), "MACHINERY", "harness: block position {} does not fit", bp);
                    let _ = c.remaining_blocks();
                    let _ = c.get_block_pos();
                    let _ = c.iv_state();
                    let mut s = c.into_stream();
                    for t in SEEK_TYS {
                        let _ = s.pos(t);
                    }
                    for l in [0usize, 1, bs, bs + 1] {
                        let mut buf = data[..l].to_vec();
                        let _ = s.apply(Kind::InPlace, &[], &mut buf);
                        for t in SEEK_TYS {
                            let _ = s.pos(t);
                        }
                    }
                    Ok(())
                });
                for l in [0usize, 1, bs, bs + 1, 2 * bs] {
                    rep.case(|| {
                        let mut c = rec::core(cfg, d, &key, &iv);
                        let _ = c.set_block_pos(bp);
                        let mut buf = data[..l].to_vec();
                        let _ = c.partial(Kind::InPlace, &[], &mut buf);
                        Ok(())
                    });
                }
            }
            // IVs whose counter field sits on every carry boundary: a batch that contains the wrap must not panic
            if d.mode.starts_with("ctr") {
                for (_n, civ) in crate::c04::ivs(seed, bs, d.w, d.be) {
                    for start in [0u128, 1, par as u128] {
                        rep.case(|| {
                            let mut c = rec::core(cfg, d, &key, &civ);
                            let _ = c.set_block_pos(start);
                            let mut buf = data[..(2 * par + 1) * bs].to_vec();
                            let _ = c.apply_blocks(Kind::InPlace, &[], &mut buf);
                            let mut s = rec::stream(cfg, d, &key, &civ);
                            let mut one = data[..1].to_vec();
                            let _ = s.apply(Kind::InPlace, &[], &mut one);
                            let _ = s.apply(Kind::InPlace, &[], &mut buf);
                            Ok(())
                        });
                    }
                }
            }
            // the unchecked block-level API at and across the last counter value: by design it wraps, it must not panic
            for bp in [lim - 1, lim] {
                for nblocks in [1usize, 2, par + 1] {
                    rep.case(|| {
                        let mut c = rec::core(cfg, d, &key, &iv);
                        let _ = c.set_block_pos(bp);
                        let mut buf = data[..nblocks * bs].to_vec();
                        c.write_blocks(&mut buf);
                        let _ = c.apply_blocks(Kind::InPlace, &[], &mut buf);
                        c.write_block(&mut buf[..bs]);
                        let _ = c.get_block_pos();
                        let _ = c.remaining_blocks();
                        let _ = c.iv_state();
                        Ok(())
                    });
                }
            }
            // byte seeks into and just past the last block (positions a caller can form), all representable types
            if let Some(end) = lim.checked_mul(bs as u128) {
                for pos in [end - 1, end, end + 1, end + bs as u128 - 1] {
                    for t in SEEK_TYS {
                        if pos > t.max() {
                            continue;
                        }
                        rep.case(|| {
                            let mut s = rec::stream(cfg, d, &key, &iv);
                            let _ = s.seek(t, pos);
                            for t2 in SEEK_TYS {
                                let _ = s.pos(t2);
                            }
                            let mut buf = data[..bs + 1].to_vec();
                            let _ = s.apply(Kind::InPlace, &[], &mut buf);
                            Ok(())
                        });
                    }
                }
            }
            // byte seeks of every integer type to the ends of its range
            for t in SEEK_TYS {
                for pos in [0u128, 1, (bs - 1) as u128, bs as u128, t.max() / 2, t.max() - 1, t.max()] {
                    rep.case(|| {
                        let mut s = rec::stream(cfg, d, &key, &iv);
                        let _ = s.seek(t, pos);
                        for t2 in SEEK_TYS {
                            let _ = s.pos(t2);
                        }
                        let mut buf = data[..bs + 1].to_vec();
                        let _ = s.apply(Kind::InPlace, &[], &mut buf);
                        let _ = s.core_remaining();
                        Ok(())
                    });
                }
            }
        }
        rep.finish()
    });
    let mut o = merge(reports);
    extend(&mut o, merge(r2));
    o.rule = "stateless exhaustive: (1) every CTS type x direction x call form x every length 0..bs-1 -> Err with untouched buffers; (2) every unpadded buffer-to-buffer / inout entry point (block-level, one-shot, byte stream, keystream core, CTS) x output length in {0, L-1, L+1, L+extra} -> Err, output untouched, object state and later output unchanged (twin object without the rejected call); (3) decrypt_padded / _b2b / _vec x 4 paddings x non-multiple lengths -> Err with untouched buffers; (4) new_from_slices / new_from_slice / inner_iv_slice_init x key and IV lengths {0, len-1, len+1, 2len, len/2} -> Err (IGE: two blocks accepted, one refused); (5) panic sweep under catch_unwind with overflow checks and debug assertions: every front-end x every length 0..Lmax x call form, unit-wise runs, CTS, buffered CFB resumed at every exported position, every seekable type at block positions {0,1,mid,limit-1,limit} with all five position types, byte seeks at the ends of each integer type".into();
    o.configs = cfgs.iter().map(|c| c.name.clone()).collect();
    o.bounds = vec![("all_sizes_sweep".into(), J::Str(if tier == Tier::Thorough && cfgs.iter().any(|c| c.sets.contains('s')) { "every block size 1..=255 (parallel width 2), lengths 0..=2*bs+1".into() } else { "not in this tier".to_string() })), ("panic_sweep_max_len".into(), J::Str(tier.pick("max((PAR+2)*bs+1, 3*bs+2)", "max((2*PAR+2)*bs+1, 3*bs+2)").into()))];
    o.assumptions = vec![
        "positions are non-negative (try_seek of a negative i32 trips an assert inside the cipher crate and is outside the property's domain)".into(),
        "panicking convenience wrappers documented to panic on error (apply_keystream, seek, current_pos, apply_keystream_partial, encrypt_padded_vec::<NoPadding> on a non-multiple) are not called".into(),
    ];
    o.violations.retain(|v| v.fp != "SKIP");
    o
}
