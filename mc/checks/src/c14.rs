//! C14 — alternative front-ends to the same mode are interchangeable.
use crate::c01::{Path, paths, pieces_for};
use crate::ctx::*;
use crate::ensure;
use crate::fe::*;
use crate::rec;
use crate::util::*;
use base::api::*;
use base::json::J;
use base::refmodel as rf;

const FAMILIES: [&str; 10] = ["cfb", "cfb8", "ofb", "ctr32be", "ctr32le", "ctr64be", "ctr64le", "ctr128be", "ctr128le", "belt"];

pub fn run(ctx: &Ctx) -> Outcome {
    let cfgs = ctx.cfgs();
    let tier = ctx.tier;
    let seed = ctx.seed;
    // (a) all front-ends of a family agree pairwise
    let mut units: Vec<(&Cfg, &'static str, Dir)> = vec![];
    for c in &cfgs {
        for fam in FAMILIES {
            let present = match fam {
                "cfb" | "cfb8" | "ofb" => true,
                f => c.core(f).is_some(),
            };
            if !present {
                continue;
            }
            units.push((c, fam, Dir::Enc));
            if matches!(fam, "cfb" | "cfb8") {
                units.push((c, fam, Dir::Dec));
            }
        }
    }
    let r1 = par_map(&units, |(cfg, fam, dir)| {
        let mut rep = Report::new(format!("{}/{}-{}", cfg.name, fam, dir.s()));
        let bs = cfg.bs;
        let par = par_of(cfg);
        let lmax = tier.pick(3 * bs + 2, 4 * bs + 3).max((par + 2) * bs + 1);
        let mut lens = byte_lengths(bs, lmax);
        let mut lmax = lmax;
        if bs <= 32 {
            lens.extend(long_lengths(bs));
            lmax = lmax.max(*lens.iter().max().unwrap());
        }
        let fes = family_frontends(cfg, fam, *dir);
        let pre = dirty(lmax);
        for key in keys(seed, cfg.key_len).iter().take(tier.pick(1, 2)) {
            for (ivn, iv) in iv_variants(seed, bs).into_iter().skip(light(cfg, tier)) {
                for (dn, data) in data_variants(seed, 0xC14, lmax).into_iter().skip(light(cfg, tier)) {
                    for &l in &lens {
                        let m = &data[..l];
                        // every (front-end, path) result, compared with the first one available for this length
                        let mut base: Option<(String, Vec<u8>)> = None;
                        for fe in &fes {
                            if l % fe.gran != 0 {
                                continue;
                            }
                            for path in paths(fe) {
                                let pieces = pieces_for(fe, &path, l);
                                match &base {
                                    None => {
                                        if let Ok(Ok(o)) = std::panic::catch_unwind(std::panic::AssertUnwindSafe(|| (fe.run)(key, &iv, m, &pieces, &pre))) {
                                            rep.outcome(&o.out);
                                            base = Some((format!("{} {}", fe.name, path.name), o.out));
                                        } else {
                                            rep.case(|| (fe.run)(key, &iv, m, &pieces, &pre).map(|_| ()));
                                        }
                                    }
                                    Some((bname, bout)) => {
                                        rep.case(|| {
                                            let o = (fe.run)(key, &iv, m, &pieces, &pre)?;
                                            ensure!(o.out == *bout, format!("frontends_differ/{}/{}", fam, fe.name), "{} L={} iv={} data={}: [{} {}] gives {} but [{}] gives {} (first diff at byte {:?})", cfg.name, l, ivn, dn, fe.name, path.name, short(&o.out), bname, short(bout), first_diff(&o.out, bout));
                                            Ok(())
                                        });
                                    }
                                }
                            }
                        }
                    }
                }
            }
        }
        rep.sample(case_json(vec![("family", (*fam).into()), ("dir", dir.s().into()), ("cfg", cfg.name.as_str().into()), ("front_ends_compared", J::Arr(fes.iter().map(|f| f.name.as_str().into()).collect()))]));
        rep.finish()
    });
    // (b) ciphertext stealing on whole blocks vs plain CBC / raw block operations
    let cts_units: Vec<(&Cfg, &CtsDesc)> = cfgs.iter().flat_map(|c| c.cts.iter().map(move |d| (*c, d))).collect();
    let r2 = par_map(&cts_units, |(cfg, d)| {
        let mut rep = Report::new(format!("{}/{}", cfg.name, d.name));
        let bs = cfg.bs;
        let nmax = tier.pick(2 * par_of(cfg) + 2, 2 * par_of(cfg) + 3);
        let pre = dirty(nmax * bs);
        let cbc_e = cfg.block_mode("cbc", Dir::Enc).unwrap();
        let cbc_d = cfg.block_mode("cbc", Dir::Dec).unwrap();
        for key in keys(seed, cfg.key_len).iter().take(tier.pick(1, 2)) {
            let c = rf::Ciph::new(cfg, key);
            for (ivn, iv) in iv_variants(seed, bs) {
                if !d.cbc && ivn != "zero" {
                    continue;
                }
                for (dn, data) in data_variants(seed, 0xC14, nmax * bs) {
                    for n in 1..=nmax {
                        let m = &data[..n * bs];
                        for dir in [Dir::Enc, Dir::Dec] {
                            for k in KINDS {
                                rep.case(|| {
                                    // the plain mode through the real plain-mode type (CBC) or the raw cipher (ECB)
                                    let swap_last_two = |v: &mut Vec<u8>| {
                                        if n >= 2 {
                                            let (a, b) = v.split_at_mut((n - 1) * bs);
                                            a[(n - 2) * bs..].swap_with_slice(b);
                                        }
                                    };
                                    // CS3 decrypt sees the exchanged order: undo it before the plain decryptor
                                    let mut plain_in = m.to_vec();
                                    if d.variant == 3 && dir == Dir::Dec {
                                        swap_last_two(&mut plain_in);
                                    }
                                    let mut plain = if d.cbc {
                                        let fe = fe_bm(cfg, if dir == Dir::Enc { cbc_e } else { cbc_d });
                                        (fe.run)(key, &iv, &plain_in, &[p(n * bs, Kind::InPlace)], &pre)?.out
                                    } else {
                                        plain_in.chunks(bs).flat_map(|b| if dir == Dir::Enc { c.e(b) } else { c.d(b) }).collect()
                                    };
                                    if d.variant == 3 && dir == Dir::Enc {
                                        swap_last_two(&mut plain);
                                    }
                                    let fe = fe_cts(cfg, d, dir);
                                    let got = (fe.run)(key, &iv, m, &[p(n * bs, k)], &pre)?;
                                    ensure!(got.out == plain, format!("cts_vs_plain/{}/{}", d.name, if n == 1 { "one_block" } else { "whole_blocks" }), "{} {}({}) on {} whole blocks (iv={} data={}): {} but the plain {} gives {}{}", d.ty, dir.s(), k.s(), n, ivn, dn, short(&got.out), if d.cbc { "CBC mode" } else { "block cipher" }, short(&plain), if d.variant == 3 { " (last two blocks exchanged)" } else { "" });
                                    Ok(())
                                });
                            }
                        }
                    }
                }
            }
        }
        rep.finish()
    });
    // (c) construction from key bytes == construction from an already keyed cipher
    let r3 = par_map(&cfgs, |cfg| {
        let mut rep = Report::new(format!("{}/constructors", cfg.name));
        let bs = cfg.bs;
        let l = 2 * bs + bs / 2 + 1;
        let pre = dirty(l + bs);
        for key in keys(seed, cfg.key_len) {
            for (_ivn, iv1) in iv_variants(seed, bs) {
                let data = pattern(seed, 0xC14C, l + bs);
                let probe_blocks = &data[..2 * bs];
                let par = par_of(cfg);
                let long = pattern(seed, 0xC14D, ((par + 2) * bs).max(l + bs));
                // a core used directly first, then wrapped with StreamCipherCoreWrapper::from_core and used byte-wise: the whole
                // life must equal the reference stream
                for d in &cfg.cores {
                    let mut ks_n = vec![0usize, 1, par, par + 1];
                    ks_n.sort();
                    ks_n.dedup();
                    for &k in &ks_n {
                        for how in 0..3 {
                            rep.case(|| {
                                let tail = [1usize, bs - 1 + (bs == 1) as usize, bs + 1, (par + 1) * bs + 1];
                                let total = k * bs + tail.iter().sum::<usize>();
                                let msg = pattern(seed, 0xC14E, total);
                                let want = family_ref(cfg, d.mode, Dir::Enc, &key, &iv1, &msg).0;
                                let mut core = rec::core(cfg, d, &key, &iv1);
                                let mut out = msg[..k * bs].to_vec();
                                match how {
                                    0 => {
                                        let _ = core.apply_blocks(Kind::InPlace, &[], &mut out);
                                    }
                                    1 => {
                                        for b in out.chunks_mut(bs) {
                                            core.apply_block(Kind::InPlace, &[], b);
                                        }
                                    }
                                    _ => {
                                        let mut ks = vec![0u8; k * bs];
                                        core.write_blocks(&mut ks);
                                        out = rf::x(&out, &ks);
                                    }
                                }
                                let mut st = core.into_stream();
                                let mut off = k * bs;
                                for (i, &n) in tail.iter().enumerate() {
                                    // before the second piece: seek to where the stream already is (inside the block just begun);
                                    // the byte-level cipher must go on exactly like the block-wise reference
                                    if i == 1 && d.seekable && how == 1 {
                                        ensure!(st.seek(SeekTy::U64, off as u128) == Some(Ok(())), format!("seek_refused/{}", d.mode), "{}: seek to the current position refused", d.ty);
                                    }
                                    let mut o = msg[off..off + n].to_vec();
                                    let r = if i % 2 == 0 { st.apply(Kind::InPlace, &[], &mut o) } else { let inp = o.clone(); st.apply(Kind::B2b, &inp, &mut o) };
                                    ensure!(r.is_ok(), format!("request_refused/{}", d.mode), "{}: byte-level request refused far from the limit", d.ty);
                                    out.extend(o);
                                    off += n;
                                }
                                ensure!(out == want, format!("core_then_stream/{}", d.mode), "{}: {} block(s) through the core (form {}), then from_core and byte-level calls {:?}: {} want {} (first diff at byte {:?})", d.ty, k, how, tail, short(&out), short(&want), first_diff(&out, &want));
                                Ok(())
                            });
                        }
                    }
                }
                for ctor in [Ctor::KeyIv, Ctor::Slices, Ctor::InnerSlice] {
                    for d in &cfg.block_modes {
                        let iv = if d.iv_len == bs { iv1.clone() } else { [iv1.clone(), pattern(seed, 0x99, bs)].concat() };
                        rep.case(|| {
                            let mut a = rec::bm(cfg, d, &key, &iv);
                            let mut b = rec::new_bm(cfg, d, ctor, &key, &iv).map_err(|_| Fail { fp: format!("ctor_refused/{}-{}", d.mode, d.dir.s()), msg: format!("{}::{} refused a key/IV of the right length", d.ty, ctor.s()) })?;
                            let n = (2 * bs / d.mbs) * d.mbs;
                            let mut oa = probe_blocks[..n].to_vec();
                            let mut ob = probe_blocks[..n].to_vec();
                            let _ = a.many(Kind::InPlace, &[], &mut oa);
                            let _ = b.many(Kind::InPlace, &[], &mut ob);
                            ensure!(oa == ob && a.iv_state() == b.iv_state(), format!("ctor_differs/{}-{}", d.mode, d.dir.s()), "{}: object built with {} behaves differently from inner_iv_init with a keyed cipher: {} vs {}", d.ty, ctor.s(), short(&ob), short(&oa));
                            // later too: a call through the parallel path, a single-block call, the exported value, a clone
                            let n2 = (par + 1) * d.mbs * (bs / d.mbs).max(1);
                            let mut oa = long[..n2].to_vec();
                            let mut ob = long[..n2].to_vec();
                            let _ = a.many(Kind::B2b, &long[..n2], &mut oa);
                            let _ = b.many(Kind::B2b, &long[..n2], &mut ob);
                            let mut sa = long[..d.mbs].to_vec();
                            let mut sb = long[..d.mbs].to_vec();
                            a.one(Kind::InPlace, &[], &mut sa);
                            b.one(Kind::InPlace, &[], &mut sb);
                            let (mut ca, mut cb) = (a.dup(), b.dup());
                            let mut ta = long[..d.mbs].to_vec();
                            let mut tb = long[..d.mbs].to_vec();
                            ca.one(Kind::InPlace, &[], &mut ta);
                            cb.one(Kind::InPlace, &[], &mut tb);
                            ensure!(oa == ob && sa == sb && ta == tb && a.iv_state() == b.iv_state(), format!("ctor_differs/{}-{}", d.mode, d.dir.s()), "{}: object built with {} behaves differently from inner_iv_init LATER (parallel call {} vs {}, single block {} vs {}, clone {} vs {})", d.ty, ctor.s(), short(&ob), short(&oa), short(&sb), short(&sa), short(&tb), short(&ta));
                            Ok(())
                        });
                    }
                    for d in &cfg.cores {
                        rep.case(|| {
                            let mut a = rec::core(cfg, d, &key, &iv1);
                            let mut b = rec::new_core(cfg, d, ctor, &key, &iv1).map_err(|_| Fail { fp: format!("ctor_refused/{}", d.mode), msg: format!("{}::{} refused a key/IV of the right length", d.ty, ctor.s()) })?;
                            let mut oa = probe_blocks.to_vec();
                            let mut ob = probe_blocks.to_vec();
                            let _ = a.apply_blocks(Kind::InPlace, &[], &mut oa);
                            let _ = b.apply_blocks(Kind::InPlace, &[], &mut ob);
                            ensure!(oa == ob && a.iv_state() == b.iv_state(), format!("ctor_differs/{}", d.mode), "{}: object built with {} behaves differently from inner_iv_init: {} vs {}", d.ty, ctor.s(), short(&ob), short(&oa));
                            // positions, limits and seeks must agree as well: right away, after a seek, and after more keystream
                            let obs = |c: &mut Box<dyn Core>| -> Vec<u8> {
                                let mut v = format!("{:?}/{:?}", c.get_block_pos(), c.remaining_blocks()).into_bytes();
                                if d.seekable {
                                    let _ = c.set_block_pos(par as u128 + 2);
                                }
                                let mut o = long[..(par + 1) * bs].to_vec();
                                let _ = c.apply_blocks(Kind::InPlace, &[], &mut o);
                                v.extend(o);
                                v.extend(format!("{:?}/{:?}", c.get_block_pos(), c.remaining_blocks()).into_bytes());
                                if d.seekable {
                                    let _ = c.set_block_pos(0);
                                }
                                let mut o = long[..bs].to_vec();
                                c.write_block(&mut o);
                                v.extend(o);
                                v.extend(c.iv_state());
                                v
                            };
                            let (va, vb) = (obs(&mut a), obs(&mut b));
                            ensure!(va == vb, format!("ctor_differs/{}", d.mode), "{}: object built with {} differs from inner_iv_init in positions / seeks / later keystream: {} vs {}", d.ty, ctor.s(), short(&vb), short(&va));
                            // byte-level alias built directly vs wrapped core
                            let mut s1 = rec::core(cfg, d, &key, &iv1).into_stream();
                            let mut s2 = rec::new_stream(cfg, d, ctor, &key, &iv1).map_err(|_| Fail { fp: format!("ctor_refused/{}", d.mode), msg: format!("StreamCipherCoreWrapper<{}>::{} refused a key/IV of the right length", d.ty, ctor.s()) })?;
                            let mut o1 = data[..l].to_vec();
                            let mut o2 = data[..l].to_vec();
                            let r1 = s1.apply(Kind::InPlace, &[], &mut o1);
                            let r2 = s2.apply(Kind::InPlace, &[], &mut o2);
                            ensure!(o1 == o2 && r1 == r2, format!("ctor_differs/{}/stream", d.mode), "StreamCipherCoreWrapper<{}>: {} vs from_core(inner_iv_init): {} vs {}", d.ty, ctor.s(), short(&o2), short(&o1));
                            if d.seekable {
                                let p1 = (s1.pos(SeekTy::U128), s1.seek(SeekTy::U64, (bs + 3) as u128));
                                let p2 = (s2.pos(SeekTy::U128), s2.seek(SeekTy::U64, (bs + 3) as u128));
                                let mut o1 = long[..l].to_vec();
                                let mut o2 = long[..l].to_vec();
                                let r1 = s1.apply(Kind::InPlace, &[], &mut o1);
                                let r2 = s2.apply(Kind::InPlace, &[], &mut o2);
                                ensure!(p1 == p2 && o1 == o2 && r1 == r2 && s1.pos(SeekTy::U128) == s2.pos(SeekTy::U128), format!("ctor_differs/{}/stream", d.mode), "StreamCipherCoreWrapper<{}>: {} vs from_core(inner_iv_init) after a seek: positions {:?} vs {:?}, bytes {} vs {}", d.ty, ctor.s(), p2, p1, short(&o2), short(&o1));
                            }
                            Ok(())
                        });
                    }
                    for d in &cfg.bufcfb {
                        rep.case(|| {
                            let mut a = rec::buf(cfg, d, &key, &iv1);
                            let mut b = rec::new_buf(cfg, d, ctor, &key, &iv1).map_err(|_| Fail { fp: format!("ctor_refused/bufcfb-{}", d.dir.s()), msg: format!("{}::{} refused a key/IV of the right length", d.ty, ctor.s()) })?;
                            let mut oa = data[..l].to_vec();
                            let mut ob = data[..l].to_vec();
                            a.process(&mut oa);
                            b.process(&mut ob);
                            ensure!(oa == ob && a.get_state() == b.get_state(), format!("ctor_differs/bufcfb-{}", d.dir.s()), "{}: {} vs inner_iv_init: {} vs {}", d.ty, ctor.s(), short(&ob), short(&oa));
                            let mut oa = long[..(par + 1) * bs + 1].to_vec();
                            let mut ob = oa.clone();
                            a.process(&mut oa);
                            b.process(&mut ob);
                            ensure!(oa == ob && a.get_state() == b.get_state(), format!("ctor_differs/bufcfb-{}", d.dir.s()), "{}: {} vs inner_iv_init on a second, longer call: {} vs {}", d.ty, ctor.s(), short(&ob), short(&oa));
                            Ok(())
                        });
                    }
                    for d in &cfg.cts {
                        for dir in [Dir::Enc, Dir::Dec] {
                            rep.case(|| {
                                let mut oa = data[..l].to_vec();
                                let mut ob = data[..l].to_vec();
                                let ra = rec::cts(cfg, d, Ctor::Inner, false, dir, Kind::InPlace, &key, &iv1, &[], &mut oa).expect("harness: ctor");
                                let rb = rec::cts(cfg, d, ctor, false, dir, Kind::InPlace, &key, &iv1, &[], &mut ob).map_err(|_| Fail { fp: format!("ctor_refused/{}", d.name), msg: format!("{}::{} refused a key/IV of the right length", d.ty, ctor.s()) })?;
                                ensure!(oa == ob && ra == rb, format!("ctor_differs/{}", d.name), "{}: {} vs inner init: {} vs {}", d.ty, ctor.s(), short(&ob), short(&oa));
                                Ok(())
                            });
                        }
                    }
                }
            }
        }
        let _ = pre;
        rep.finish()
    });
    let mut o = merge(r1);
    extend(&mut o, merge(r2));
    extend(&mut o, merge(r3));
    o.rule = "stateless exhaustive over the listed front-end pairs: (a) per family every (front-end, path) result equals the first one: buffered / block-level / one-shot CFB and CFB-8; OFB as block encryptor, block decryptor, core apply, core write, byte stream; CTR and BelT core block-wise vs byte-level; (b) CBC-CS1/2/3 on whole blocks vs the real cbc::Encryptor/Decryptor and ECB-CS1/2/3 vs raw E/D (last two blocks exchanged for CS3), all call forms; (c) every object kind built with KeyIvInit::new / new_from_slices / inner_iv_slice_init vs inner_iv_init with a keyed cipher (outputs and exported state)".into();
    o.configs = cfgs.iter().map(|c| c.name.clone()).collect();
    o.bounds = vec![("byte_len_max".into(), J::Str(tier.pick("max(3*bs+2,(PAR+2)*bs+1)", "max(4*bs+3,(PAR+2)*bs+1)").into())), ("cts_max_blocks".into(), J::Str(tier.pick("2*PAR+2", "2*PAR+3").into()))];
    let _: Option<Path> = None;
    o
}
