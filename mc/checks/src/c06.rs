//! C06 — BelT-CTR follows STB 34.101.31: s = E(IV), keystream block i = E(s + i).
use crate::ctx::*;
use crate::ensure;
use crate::rec;
use crate::util::*;
use base::api::*;
use base::json::J;
use base::refmodel as rf;
use base::toy;

pub fn run(ctx: &Ctx) -> Outcome {
    let cfgs = ctx.cfgs();
    let tier = ctx.tier;
    let seed = ctx.seed;
    // the tier's configurations plus the default cipher of the crate (BeltBlock), which is in every binary
    let mut all: Vec<&Cfg> = cfgs.clone();
    for c in &ctx.reg.cfgs {
        // ... and the very wide backends (parallel width >= 256, set 'w')
        if (c.name == "BeltBlock" || c.sets.contains('w')) && !all.iter().any(|x| x.name == c.name) {
            all.push(c);
        }
    }
    let units: Vec<(&Cfg, &CoreDesc)> = all.iter().filter_map(|c| c.core("belt").map(|d| (*c, d))).collect();
    let reports = par_map(&units, |(cfg, d)| {
        let mut rep = Report::new(format!("{}/belt", cfg.name));
        let par = par_of(cfg);
        let w = 2 * par + 2;
        let mut offsets = vec![0usize, 1, 15, 16, 17, par * 16 - 1, par * 16, par * 16 + 1, (2 * par + 1) * 16 + 5];
        offsets.sort();
        offsets.dedup();
        let mut lens = vec![0usize, 1, 15, 16, 17, 33, par * 16, (2 * par + 1) * 16, (2 * par + 1) * 16 + 3];
        lens.sort();
        lens.dedup();
        let data = pattern(seed, 0xC06, (2 * par + 2) * 16 + 8);
        for key in keys(seed, cfg.key_len).iter().take(tier.pick(1, 2)) {
            let c = rf::Ciph::new(cfg, key);
            // IVs chosen so that s_0 = E(IV) sits on either side of the 2^128 wrap
            let mut ivs: Vec<(String, Vec<u8>)> = vec![("pattern".into(), pattern(seed, 0x1717, 16)), ("zero".into(), vec![0; 16])];
            // (very wide backends: the wrap distances that matter relative to one group, not all of 0..=2W+2)
            let js: Vec<u128> = if par > 16 { vec![0, 1, 2, par as u128 - 1, par as u128, par as u128 + 1, 2 * par as u128 + 1] } else { (0..=w as u128).collect() };
            for j in js {
                ivs.push((format!("E(IV)=2^128-1-{j}"), c.d(&(u128::MAX - j).to_le_bytes())));
                ivs.push((format!("E(IV)={j}"), c.d(&j.to_le_bytes())));
            }
            for (ivn, iv) in &ivs {
                for &off in &offsets {
                    for &len in &lens {
                        let want_ks = rf::belt_ks(&c, iv, (off / 16) as u128, off % 16, len);
                        let want = rf::x(&data[..len], &want_ks);
                        rep.outcome(&want);
                        for k in KINDS {
                            rep.case(|| {
                                toy::log_start();
                                let mut s = rec::stream(cfg, d, key, iv);
                                if off > 0 {
                                    ensure!(s.seek(SeekTy::U64, off as u128) == Some(Ok(())), "seek_refused/belt", "{}: seek to {} refused", d.ty, off);
                                }
                                let mut out = if k.in_place() { data[..len].to_vec() } else { dirty(len) };
                                ensure!(s.apply(k, &data[..len], &mut out).is_ok(), "request_refused/belt", "{}: {} bytes at offset {} refused", d.ty, len, off);
                                let log = toy::log_take();
                                ensure!(out == want, "keystream_wrong/belt", "{} {} offset {} length {} ({}): {} want {} (first diff at byte {:?})", d.ty, ivn, off, len, k.s(), short(&out), short(&want), first_diff(&out, &want));
                                if cfg.is_toy() {
                                    // E(s_0 + i + 1) for the blocks touched, in order; when and how often E(IV) itself is computed (at
                                    // construction, lazily, again in iv_state()) is left to the implementation
                                    let b0 = (off / 16) as u128;
                                    let b1 = if len > 0 { (off + len).div_ceil(16) as u128 } else if off % 16 != 0 { b0 + 1 } else { b0 };
                                    let mut expect: Vec<Vec<u8>> = vec![];
                                    let mut b = b0;
                                    while b < b1 {
                                        expect.push(rf::belt_counter_block(&c, iv, b));
                                        b += 1;
                                    }
                                    // every expected block among what the cipher received (order, extra calls, memory-served repeats: not prescribed)
                                    let got: Vec<Vec<u8>> = log.iter().filter(|l| l.dir == b'E' && l.input != *iv).map(|l| l.input.clone()).collect();
                                    ensure!(first_missing(&got, &expect).is_none(), "counter_block_wrong/belt", "{} {} offset {} length {}: blocks fed to E are [{}] want [{}]", d.ty, ivn, off, len, got.iter().map(|b| short(b)).collect::<Vec<_>>().join(" "), expect.iter().map(|b| short(b)).collect::<Vec<_>>().join(" "));
                                }
                                // encryption and decryption are the same operation: applying the keystream again restores the input
                                let mut s2 = rec::stream(cfg, d, key, iv);
                                if off > 0 {
                                    let _ = s2.seek(SeekTy::U128, off as u128);
                                }
                                let mut back = out.clone();
                                let _ = s2.apply(Kind::InPlace, &[], &mut back);
                                ensure!(back == data[..len], "not_an_involution/belt", "{}: applying the keystream twice does not restore the input", d.ty);
                                Ok(())
                            });
                        }
                    }
                }
                // far offsets: around block indices 2^32 and 2^64 (seek with a u128 position), requests that cross them
                for base_block in [1u128 << 32, 1u128 << 64] {
                    for back in [0usize, 1, 17, 16 * (par + 1)] {
                        for &len in &[1usize, 16, 17, (2 * par + 1) * 16 + 3] {
                            rep.case(|| {
                                let posn = base_block * 16 - back as u128;
                                let mut s = rec::stream(cfg, d, key, iv);
                                ensure!(s.seek(SeekTy::U128, posn) == Some(Ok(())), "seek_refused/belt", "{}: seek to byte {} refused", d.ty, posn);
                                let mut out = data[..len].to_vec();
                                ensure!(s.apply(Kind::InPlace, &[], &mut out).is_ok(), "request_refused/belt", "{}: {} bytes at byte offset {} (block {}) refused although 2^128-1 blocks are available", d.ty, len, posn, posn / 16);
                                let want = rf::x(&data[..len], &rf::belt_ks(&c, iv, posn / 16, (posn % 16) as usize, len));
                                ensure!(out == want, "keystream_wrong/belt", "{} {} at byte offset {}: {} want {}", d.ty, ivn, posn, short(&out), short(&want));
                                Ok(())
                            });
                        }
                    }
                }
                // block level: core positioned at block b, batches, exported state = D(s_0 + blocks)
                for b in [0u128, 1, par as u128, (par + 1) as u128] {
                    for m in [1usize, par, 2 * par + 1] {
                        rep.case(|| {
                            let mut core = rec::core(cfg, d, key, iv);
                            ensure!(core.set_block_pos(b), "MACHINERY", "harness: set_block_pos");
                            let mut out = data[..m * 16].to_vec();
                            let _ = core.apply_blocks(Kind::InPlace, &[], &mut out);
                            let want = rf::x(&data[..m * 16], &rf::belt_ks(&c, iv, b, 0, m * 16));
                            ensure!(out == want, "keystream_wrong/belt/core", "{} {} blocks {}..{}: {} want {}", d.ty, ivn, b, b + m as u128, short(&out), short(&want));
                            let st = core.iv_state();
                            let want_st = c.d(&rf::le_add(&rf::belt_s0(&c, iv), b + m as u128));
                            ensure!(st == want_st, "exported_state_wrong/belt", "{} {} after {} blocks: iv_state() = {} want D(s_0 + {}) = {}", d.ty, ivn, b + m as u128, short(&st), b + m as u128, short(&want_st));
                            let mut ks = dirty(m * 16);
                            let mut core2 = rec::core(cfg, d, key, iv);
                            let _ = core2.set_block_pos(b);
                            core2.write_blocks(&mut ks);
                            ensure!(rf::x(&ks, &data[..m * 16]) == want, "keystream_wrong/belt/write", "{}: write_keystream_blocks disagrees with the reference", d.ty);
                            Ok(())
                        });
                    }
                }
            }
            rep.sample(case_json(vec![("type", d.ty.as_str().into()), ("iv", hx(&ivs[2].1)), ("iv_meaning", ivs[2].0.as_str().into()), ("first_counter_block", hx(&rf::belt_counter_block(&c, &ivs[2].1, 0))), ("offsets", J::Arr(offsets.iter().map(|o| (*o).into()).collect())), ("lengths", J::Arr(lens.iter().map(|o| (*o).into()).collect())), ("ivs", ivs.len().into())]));
        }
        rep.finish()
    });
    let mut o = merge(reports);
    o.rule = "stateless exhaustive: BelT-CTR over every 16-byte-block configuration (parallel widths 1,3,8 in quick; 1..16 and the real BelT cipher in thorough) x key x IV in {pattern, zero, D(2^128-1-j), D(j) for j = 0..W} (so s_0 = E(IV) lies on either side of the 2^128 wrap) x start offset x length x call form; oracle: output = input xor E(s_0+i+1 mod 2^128, little endian), the blocks the harness cipher received are exactly E-input IV followed by the counter blocks of the touched indices in order, applying twice restores the input; core level: batches from block positions, write_keystream_blocks, iv_state() = D(s_0 + blocks)".into();
    o.configs = units.iter().map(|(c, _)| c.name.clone()).collect();
    o.bounds = vec![("wrap_window".into(), J::Str("W = 2*PAR+2".into())), ("keys".into(), J::Int(tier.pick(1, 2)))];
    o
}
