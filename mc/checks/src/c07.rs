//! C07 — output is independent of block batching and of the cipher's parallel width.
//!
//! For every block-oriented entry point: (1) all compositions of n blocks into calls x call kind per
//! piece, (2) <= k split deviations from the default "one call" schedule on a long input, (3) merged
//! BFS over call sizes with the singleton-state invariant, (4) the same inputs under every parallel
//! width available for the block size (also for the CTS one-shots, whose batching is internal).
use crate::bfs::{self, Machine};
use crate::ctx::*;
use crate::ensure;
use crate::fe::*;
use crate::util::*;
use base::api::*;
use base::json::J;
use base::toy;

pub const FAMILIES: [&str; 13] = ["cbc", "pcbc", "ige", "cfb", "cfb8", "ofb", "ctr32be", "ctr32le", "ctr64be", "ctr64le", "ctr128be", "ctr128le", "belt"];

/// block-granular front-ends of a family/direction
pub fn block_frontends<'a>(cfg: &'a Cfg, fam: &str, dir: Dir) -> Vec<Fe<'a>> {
    family_frontends(cfg, fam, dir).into_iter().filter(|f| f.multi && f.singles).collect()
}
pub fn fam_dirs(cfg: &Cfg) -> Vec<(&'static str, Dir)> {
    let mut v = vec![];
    for fam in FAMILIES {
        let present = match fam {
            "cbc" | "pcbc" | "cfb" | "cfb8" | "ofb" => true,
            "ige" => cfg.block_mode("ige", Dir::Enc).is_some(),
            f => cfg.core(f).is_some(),
        };
        if !present {
            continue;
        }
        v.push((fam, Dir::Enc));
        if matches!(fam, "cbc" | "pcbc" | "ige" | "cfb" | "cfb8") {
            v.push((fam, Dir::Dec));
        }
    }
    v
}

/// reference output and exported state after every granule
pub struct FamRef {
    pub out: Vec<u8>,
    pub states: Vec<Vec<u8>>,
}
pub fn fam_ref(cfg: &Cfg, fam: &str, dir: Dir, key: &[u8], iv: &[u8], data: &[u8], gran: usize) -> FamRef {
    let n = data.len() / gran;
    let out = family_ref(cfg, fam, dir, key, iv, data).0;
    let states = (0..=n).map(|i| family_ref(cfg, fam, dir, key, iv, &data[..i * gran]).1.expect("harness: state on a block boundary")).collect();
    FamRef { out, states }
}

fn check_against(fe: &Fe, got: &FeOut, want: &FamRef, pieces: &[P], what: &str) -> CaseResult {
    let total: usize = pieces.iter().map(|p| p.len).sum();
    ensure!(got.out == want.out[..total], format!("output/{}", fe.name), "{} {} pieces [{}]: output {} differs from the one-block-at-a-time / reference result {} (first diff at byte {:?})", fe.ty, what, ps(pieces), short(&got.out), short(&want.out[..total]), first_diff(&got.out, &want.out[..total]));
    let mut off = 0;
    for (i, pc) in pieces.iter().enumerate() {
        off += pc.len;
        if let Some(s) = got.states.get(i) {
            let w = &want.states[off / fe.gran];
            ensure!(s == w, format!("chaining_state/{}", fe.name), "{} {} pieces [{}]: chaining state after piece {} is {} want {}", fe.ty, what, ps(pieces), i + 1, short(s), short(w));
        }
    }
    Ok(())
}

/// all compositions of n blocks x {in place, b2b} per piece; one-block pieces use the single-block entry points
fn composition_schedules(n: usize, gran: usize) -> Vec<Vec<P>> {
    let mut out = vec![];
    for comp in compositions(n) {
        let m = comp.len();
        for mask in 0..(1u32 << m) {
            out.push(comp.iter().enumerate().map(|(i, &k)| P { len: k * gran, kind: if mask >> i & 1 == 1 { Kind::B2b } else { Kind::InPlace }, single: k == 1, closure: 0 }).collect());
        }
    }
    out
}

struct SizeMachine<'a> {
    fe: &'a Fe<'a>,
    key: &'a [u8],
    iv: &'a [u8],
    data: &'a [u8],
    pre: &'a [u8],
    want: &'a FamRef,
    sizes: Vec<usize>,
    nmax: usize,
}
impl Machine for SizeMachine<'_> {
    type Act = P;
    fn actions(&self, hist: &[P]) -> Vec<P> {
        let used: usize = hist.iter().map(|p| p.len).sum::<usize>() / self.fe.gran;
        let mut v = vec![];
        for &s in &self.sizes {
            // an empty multi-block call is legal; two in a row add nothing new
            if used + s > self.nmax || (s == 0 && hist.last().map(|p| p.len == 0).unwrap_or(false)) {
                continue;
            }
            // every call form of the front-end: in place / b2b / inout, single-block entry points,
            // caller-supplied closures, write_keystream_block(s)
            v.extend(self.fe.forms(s));
        }
        v
    }
    fn run(&self, hist: &[P]) -> Result<Option<Vec<u8>>, Fail> {
        let g = self.fe.gran;
        let used: usize = hist.iter().map(|p| p.len).sum();
        // probe: two further blocks through the single-block entry point
        let probe_n = ((self.data.len() - used) / g).min(2);
        let mut pieces = hist.to_vec();
        for _ in 0..probe_n {
            pieces.push(P { len: g, kind: Kind::InPlace, single: true, closure: 0 });
        }
        let total = used + probe_n * g;
        let got = (self.fe.run)(self.key, self.iv, &self.data[..total], &pieces, self.pre)?;
        check_against(self.fe, &got, self.want, &pieces, "history")?;
        // canonical key: (blocks consumed, exported state there, probe output)
        let mut key = (used as u64).to_le_bytes().to_vec();
        key.extend(got.states.get(hist.len().wrapping_sub(1)).cloned().unwrap_or_else(|| self.want.states[0].clone()));
        key.extend(&got.out[used..]);
        Ok(Some(key))
    }
    fn confluence_class(&self, key: &[u8]) -> Option<Vec<u8>> {
        Some(key[..8].to_vec())
    }
}

pub fn run(ctx: &Ctx) -> Outcome {
    let cfgs = ctx.cfgs();
    let tier = ctx.tier;
    let seed = ctx.seed;
    let mut units: Vec<(&Cfg, &'static str, Dir)> = vec![];
    for c in &cfgs {
        for (f, d) in fam_dirs(c) {
            units.push((c, f, d));
        }
    }
    toy::counts_reset();
    let reports = par_map(&units, |(cfg, fam, dir)| {
        let mut rep = Report::new(format!("{}/{}-{}", cfg.name, fam, dir.s()));
        let c0 = toy::counts();
        let bs = cfg.bs;
        let par = par_of(cfg);
        let iv_len = if *fam == "ige" { 2 * bs } else { bs };
        let key = &keys(seed, cfg.key_len)[0];
        let ncomp = tier.pick(7, 9);
        let ndev = (4 * par + 3).max(19);
        let kdev: usize = tier.pick(2, 3);
        let nbfs = tier.pick(24, 64).max(ndev);
        // very long single calls (33 .. 257 blocks; thorough to 1025) for small blocks
        let very_long: Vec<usize> = if bs <= 16 { tier.pick(vec![33, 65, 129, 257], vec![33, 65, 129, 257, 513, 1025]) } else { vec![] };
        let ndata = nbfs.max(very_long.iter().copied().max().unwrap_or(0));
        for fe in block_frontends(cfg, fam, *dir) {
            let g = fe.gran;
            let pre = dirty(ndata * g + 2 * g);
            // counter modes also get the all-ones IV in the quick tier: the counter field wraps inside the first batches
            let iv_skip = if fam.starts_with("ctr") || *fam == "belt" { 1 } else { tier.pick(2, 1) };
            for (ivn, iv) in iv_variants(seed, iv_len).into_iter().skip(iv_skip) {
                for (dn, data) in data_variants(seed, 0xC07, (ndata + 2) * g).into_iter().skip(tier.pick(2, 1)) {
                    let want = fam_ref(cfg, fam, *dir, key, &iv, &data, g);
                    rep.outcome(&want.out);
                    for st in &want.states {
                        rep.outcome(st);
                    }
                    // the baseline: one block at a time through the single-block entry point must equal the reference
                    rep.case(|| {
                        let pieces: Vec<P> = (0..ncomp.max(4)).map(|_| P { len: g, kind: Kind::InPlace, single: true, closure: 0 }).collect();
                        let got = (fe.run)(key, &iv, &data[..pieces.len() * g], &pieces, &pre)?;
                        check_against(&fe, &got, &want, &pieces, "one block at a time;")
                    });
                    // (1) all compositions
                    for n in 1..=ncomp {
                        for pieces in composition_schedules(n, g) {
                            rep.case(|| {
                                let got = (fe.run)(key, &iv, &data[..n * g], &pieces, &pre)?;
                                check_against(&fe, &got, &want, &pieces, &format!("n={n} iv={ivn} data={dn};"))
                            });
                        }
                    }
                    rep.count("composition_schedules", (1..=ncomp).map(|n| 2 * 3u64.pow(n as u32 - 1)).sum());
                    // (1b) the same compositions through a CALLER-SUPPLIED closure (`*_with_backend` / `process_with_backend`):
                    // full groups via *_par_blocks, remainder block by block (mode 1) or via *_tail_blocks if non-empty (mode 2)
                    let closure_ok = !fe.closures.is_empty();
                    if closure_ok {
                        for n in 1..=ncomp.max(ndev.min(2 * par + 3)) {
                            let comps: Vec<Vec<usize>> = if n <= ncomp { compositions(n) } else { let mut v = vec![vec![n], vec![1, n - 1], vec![n - 1, 1]]; if n > par { v.push(vec![par, n - par]); } v };
                            for comp in comps {
                                for mode in fe.closures.iter().copied().filter(|c| *c != 9) {
                                    let pieces: Vec<P> = comp.iter().map(|&k| pc(k * g, mode)).collect();
                                    rep.case(|| {
                                        let got = (fe.run)(key, &iv, &data[..n * g], &pieces, &pre)?;
                                        check_against(&fe, &got, &want, &pieces, &format!("n={n} through a caller-supplied closure (mode {mode});"))
                                    });
                                    // a closure piece followed by ordinary calls and vice versa
                                    if comp.len() >= 2 {
                                        let mut mixed = pieces.clone();
                                        mixed[0] = P { len: comp[0] * g, kind: Kind::InPlace, single: false, closure: 0 };
                                        rep.case(|| {
                                            let got = (fe.run)(key, &iv, &data[..n * g], &mixed, &pre)?;
                                            check_against(&fe, &got, &want, &mixed, &format!("n={n} mixed ordinary / closure calls;"))
                                        });
                                    }
                                }
                            }
                        }
                    }
                    // (1c) stateless: every ordered pair (thorough: triple) of (size, call form) over sizes {0, 1, W, W+1},
                    // followed by one single-block call -- nothing merged, so a form that leaves hidden state behind
                    // for the NEXT form is seen whatever the exported chaining value says
                    {
                        let mut szs = vec![0usize, 1, par, par + 1];
                        szs.sort();
                        szs.dedup();
                        let alphabet: Vec<P> = szs.iter().flat_map(|&n| fe.forms(n)).collect();
                        let depth = if par <= 4 && bs <= 16 { tier.pick(2, 3) } else { 2 };
                        let mut seqs: Vec<Vec<P>> = alphabet.iter().map(|a| vec![*a]).collect();
                        for _ in 1..depth {
                            seqs = seqs.iter().flat_map(|s| alphabet.iter().map(move |a| { let mut t = s.clone(); t.push(*a); t })).collect();
                        }
                        rep.count("form_sequences", seqs.len() as u64);
                        for mut pieces in seqs {
                            pieces.push(P { len: g, kind: Kind::InPlace, single: true, closure: 0 });
                            let total: usize = pieces.iter().map(|p| p.len).sum();
                            rep.case(|| {
                                let got = (fe.run)(key, &iv, &data[..total], &pieces, &pre)?;
                                check_against(&fe, &got, &want, &pieces, "call-form sequence;")
                            });
                        }
                    }
                    // (2) <= k split deviations from "one call on the whole input", all in place and all b2b
                    let mut cuts_sets: Vec<Vec<usize>> = vec![vec![]];
                    for a in 1..ndev {
                        cuts_sets.push(vec![a]);
                        for b in a + 1..ndev {
                            cuts_sets.push(vec![a, b]);
                            if kdev >= 3 {
                                for c in b + 1..ndev {
                                    cuts_sets.push(vec![a, b, c]);
                                }
                            }
                        }
                    }
                    for cuts in &cuts_sets {
                        for kind in [Kind::InPlace, Kind::B2b] {
                            let mut pieces = vec![];
                            let mut prev = 0;
                            for &c in cuts.iter().chain(std::iter::once(&ndev)) {
                                pieces.push(P { len: (c - prev) * g, kind, single: false, closure: 0 });
                                prev = c;
                            }
                            rep.case(|| {
                                let got = (fe.run)(key, &iv, &data[..ndev * g], &pieces, &pre)?;
                                check_against(&fe, &got, &want, &pieces, &format!("n={ndev} with {} split deviation(s);", cuts.len()))
                            });
                        }
                    }
                    rep.count("deviation_schedules", 2 * cuts_sets.len() as u64);
                    // (2c) very long single calls, also preceded / followed by a single block
                    for &n in &very_long {
                        // the long call in every kind the front-end offers (a provided method per kind may carry its own override)
                        for &k in fe.kinds.iter().filter(|k| **k != Kind::InPlace) {
                            let pieces = vec![P { len: n * g, kind: k, single: false, closure: 0 }];
                            rep.case(|| {
                                let got = (fe.run)(key, &iv, &data[..n * g], &pieces, &pre)?;
                                check_against(&fe, &got, &want, &pieces, &format!("n={n} (very long call);"))
                            });
                        }
                        for pieces in [vec![P { len: n * g, kind: Kind::InPlace, single: false, closure: 0 }], vec![P { len: g, kind: Kind::InPlace, single: true, closure: 0 }, P { len: (n - 1) * g, kind: Kind::B2b, single: false, closure: 0 }], vec![P { len: (n - 1) * g, kind: Kind::InPlace, single: false, closure: 0 }, P { len: g, kind: Kind::B2b, single: true, closure: 0 }]] {
                            rep.case(|| {
                                let got = (fe.run)(key, &iv, &data[..n * g], &pieces, &pre)?;
                                check_against(&fe, &got, &want, &pieces, &format!("n={n} (very long call);"))
                            });
                        }
                    }
                    // (3) merged BFS over call sizes
                    let mut sizes = vec![0, 1, 2, par.saturating_sub(1), par, par + 1, 2 * par, 2 * par + 1, 3 * par + 1, 8, 9, 16, 17];
                    sizes.sort();
                    sizes.dedup();
                    let expect_states = reachable_offsets(&sizes, nbfs) as u64;
                    let m = SizeMachine { fe: &fe, key, iv: &iv, data: &data[..nbfs * g], pre: &pre, want: &want, sizes, nmax: nbfs };
                    let st = bfs::bfs(&m, &mut rep, nbfs + 1, 100_000, &|| false);
                    // completeness cross-check: one canonical state per reachable offset, no more, no fewer
                    if rep.violations.is_empty() && st.states != expect_states {
                        rep.machinery_errors.push(format!("explorer completeness cross-check failed for {} {}: {} canonical states, {} reachable offsets", cfg.name, fe.name, st.states, expect_states));
                    }
                    rep.count("model_states_cross_checked", expect_states);
                    rep.count("bfs_states", st.states);
                    rep.count("bfs_transitions", st.transitions);
                    rep.count("bfs_dedup_hits", st.dedup_hits);
                }
            }
            if rep.samples.is_empty() {
                rep.sample(case_json(vec![("front_end", fe.name.as_str().into()), ("type", fe.ty.as_str().into()), ("compositions_up_to_blocks", ncomp.into()), ("deviation_input_blocks", ndev.into()), ("max_split_deviations", (kdev as usize).into()), ("bfs_input_blocks", nbfs.into()), ("example_schedule", ps(&composition_schedules(4, g)[13]).into())]));
            }
        }
        let c1 = toy::counts();
        rep.count("backend_par_blocks", (c1[1] - c0[1]) + (c1[4] - c0[4]));
        rep.count("backend_tail_blocks", (c1[2] - c0[2]) + (c1[5] - c0[5]));
        rep.count("backend_single_blocks", (c1[0] - c0[0]) + (c1[3] - c0[3]));
        rep.finish()
    });
    // (2d) one HUGE call (past 512 KiB / 1 MiB thresholds of "bulk" paths): a megabyte and three blocks in every call kind,
    // compared with the reference computed in one pass (output and final state); one 16-byte configuration (thorough: two)
    let huge_cfgs: Vec<&Cfg> = cfgs.iter().filter(|c| c.is_toy() && ((c.bs == 16 && c.par == 3) || (tier == Tier::Thorough && c.bs == 64))).cloned().collect();
    let huge_units: Vec<(&Cfg, &'static str, Dir)> = units.iter().filter(|(c, _, _)| huge_cfgs.iter().any(|h| h.name == c.name)).cloned().collect();
    let rhuge = par_map(&huge_units, |(cfg, fam, dir)| {
        let mut rep = Report::new(format!("{}/{}-{}/huge", cfg.name, fam, dir.s()));
        let bs = cfg.bs;
        let key = &keys(seed, cfg.key_len)[0];
        let iv = pattern(seed, 0x1717, if *fam == "ige" { 2 * bs } else { bs });
        for fe in block_frontends(cfg, fam, *dir) {
            let g = fe.gran;
            let n = (1usize << 20) / bs.max(g) * (bs.max(g) / g) + 3 * (bs / g).max(1);
            let data = pattern(seed, 0xC07E, n * g);
            let pre = dirty(n * g);
            let (want, want_state) = family_ref(cfg, fam, *dir, key, &iv, &data);
            for &k in &fe.kinds {
                rep.case(|| {
                    let pieces = [p(n * g, k)];
                    let got = (fe.run)(key, &iv, &data, &pieces, &pre)?;
                    ensure!(got.out == want, format!("output/{}", fe.name), "{} one call of {} bytes ({}): output differs from the reference (first diff at byte {:?})", fe.ty, n * g, k.s(), first_diff(&got.out, &want));
                    ensure!(got.state == want_state, format!("chaining_state/{}", fe.name), "{} one call of {} bytes ({}): final chaining state {:?} want {:?}", fe.ty, n * g, k.s(), got.state.as_ref().map(|s| short(s)), want_state.as_ref().map(|s| short(s)));
                    Ok(())
                });
            }
        }
        rep.finish()
    });
    // (1d) closure scripts: every sequence of <= 3 (thorough: 4 for narrow backends) backend calls -- a full parallel group, a
    // single block, a tail of one or two blocks, each through the InOut or the in-place backend method -- made by a
    // caller-supplied closure inside ONE *_with_backend / process_with_backend session, followed by an ordinary single-block
    // call; nothing merged.  This is the general form of the fixed closure shapes used elsewhere.
    // (harness-cipher configurations: their width is known exactly, which sizing a script needs)
    let script_units: Vec<(&Cfg, &'static str, Dir)> = units.iter().filter(|(c, _, _)| c.is_toy()).cloned().collect();
    let r1d = par_map(&script_units, |(cfg, fam, dir)| {
        let mut rep = Report::new(format!("{}/{}-{}/scripts", cfg.name, fam, dir.s()));
        let bs = cfg.bs;
        let par = cfg.par;
        let iv_len = if *fam == "ige" { 2 * bs } else { bs };
        let key = &keys(seed, cfg.key_len)[0];
        let is_bm = matches!(*fam, "cbc" | "pcbc" | "ige" | "cfb" | "cfb8" | "ofb");
        let depth = if par <= 4 { tier.pick(3, 4) } else { 3 };
        // the op alphabet: stream backends have no in-place variants; tails of two blocks need width >= 3
        // (block modes: + 0x10 = the same call buffer to buffer, from a private input copy into the poisoned buffer)
        let mut ops: Vec<u8> = if is_bm { vec![0, 1, 2, 3, 4, 5, 6, 7, 0x10, 0x12, 0x14, 0x16] } else { vec![0, 2, 4, 6] };
        if par < 3 {
            ops.retain(|o| (*o & 0x0f) < 6);
        }
        if par < 2 {
            ops.retain(|o| (*o & 0x0f) < 4);
        }
        let mut scripts: Vec<Vec<u8>> = ops.iter().map(|o| vec![*o]).collect();
        let mut last = scripts.clone();
        for _ in 1..depth {
            last = last.iter().flat_map(|s| ops.iter().map(move |o| { let mut t = s.clone(); t.push(*o); t })).collect();
            scripts.extend(last.iter().cloned());
        }
        rep.count("closure_scripts", scripts.len() as u64);
        let bm = if is_bm { cfg.block_mode(fam, *dir) } else { None };
        let core = if is_bm && *fam != "ofb" { None } else { cfg.core(fam) };
        let g = bm.map(|d| d.mbs).unwrap_or(bs);
        let nmax = depth * par.max(2) + 1;
        let iv = pattern(seed, 0x1717, iv_len);
        let data = pattern(seed, 0xC07D, (nmax + 1) * g);
        let want = fam_ref(cfg, fam, *dir, key, &iv, &data, g);
        for script in &scripts {
            // room for the widest possible interpretation; the closure reports how many blocks it really processed
            let room = base::api::script_blocks(script, par.max(1));
            if let Some(d) = bm {
                rep.case(|| {
                    let mut obj = crate::rec::bm(cfg, d, key, &iv);
                    let mut buf = data[..(room + 1) * g].to_vec();
                    let n = obj.many_script(script, &mut buf[..room * g]);
                    ensure!(n <= room, "MACHINERY", "harness: script consumed more than the room given");
                    let st = obj.iv_state();
                    obj.one(Kind::InPlace, &[], &mut buf[n * g..(n + 1) * g]);
                    let got = &buf[..(n + 1) * g];
                    ensure!(got == &want.out[..(n + 1) * g], format!("output/{}-{}/script", fam, dir.s()), "{}: caller-supplied closure making the backend calls {:?} in one session (0/1 = parallel group, 2/3 = single block, 4/5 = tail of 1, 6/7 = tail of 2; odd = in-place method, +16 = buffer to buffer; {} blocks), then one ordinary block: {} want {} (first diff at byte {:?})", d.ty, script, n, short(got), short(&want.out[..(n + 1) * g]), first_diff(got, &want.out[..(n + 1) * g]));
                    ensure!(st == want.states[n], format!("chaining_state/{}-{}/script", fam, dir.s()), "{}: chaining state after the closure script {:?} is {} want {}", d.ty, script, short(&st), short(&want.states[n]));
                    Ok(())
                });
            }
            if let (Some(d), true) = (core, *dir == Dir::Enc) {
                rep.case(|| {
                    let mut obj = crate::rec::core(cfg, d, key, &iv);
                    let mut ks = dirty(room * bs);
                    let n = obj.write_script(script, &mut ks);
                    ensure!(n <= room, "MACHINERY", "harness: script consumed more than the room given");
                    let st = obj.iv_state();
                    let mut probe = data[n * bs..(n + 1) * bs].to_vec();
                    obj.apply_block(Kind::InPlace, &[], &mut probe);
                    let mut out = base::refmodel::x(&data[..n * bs], &ks[..n * bs]);
                    out.extend(probe);
                    ensure!(out == want.out[..(n + 1) * bs], format!("output/{}/core-script", fam), "{}: caller-supplied closure making the backend calls {:?} in one process_with_backend session, then one ordinary block: {} want {} (first diff at byte {:?})", d.ty, script, short(&out), short(&want.out[..(n + 1) * bs]), first_diff(&out, &want.out[..(n + 1) * bs]));
                    ensure!(st == want.states[n], format!("chaining_state/{}/core-script", fam), "{}: exported state after the closure script {:?} is {} want {}", d.ty, script, short(&st), short(&want.states[n]));
                    Ok(())
                });
            }
        }
        rep.finish()
    });
    // (4) width independence: identical inputs under every width available for a (cipher, block size)
    let mut groups: std::collections::BTreeMap<(String, usize), Vec<&Cfg>> = Default::default();
    for c in &cfgs {
        if c.is_toy() {
            groups.entry((c.cipher.to_string(), c.bs)).or_default().push(c);
        }
    }
    // the very wide backends (width >= 256: beyond a u8) take part here only; their block sizes have narrow partners above
    for c in ctx.reg.cfgs.iter().filter(|c| c.sets.contains('w') && c.is_toy()) {
        if let Some(g) = groups.get_mut(&(c.cipher.to_string(), c.bs)) {
            g.push(c);
        }
    }
    let groups: Vec<Vec<&Cfg>> = groups.into_values().filter(|g| g.len() >= 2).collect();
    let r4 = par_map(&groups, |group| {
        let mut rep = Report::new(format!("widths/bs={}", group[0].bs));
        let bs = group[0].bs;
        let pmax = group.iter().map(|c| par_of(c)).max().unwrap();
        let n = 4 * pmax + 3;
        let key = &keys(seed, group[0].key_len)[0];
        let data = pattern(seed, 0xC074, n * bs + bs - 1);
        let pre = dirty(n * bs + bs);
        let base = group[0];
        for (fam, dir) in fam_dirs(base) {
            let iv = pattern(seed, 0x1717, if fam == "ige" { 2 * bs } else { bs });
            for other in &group[1..] {
                if !fam_dirs(other).contains(&(fam, dir)) {
                    continue;
                }
                let fa = block_frontends(base, fam, dir);
                let fb = block_frontends(other, fam, dir);
                for (a, b) in fa.iter().zip(&fb) {
                    for nn in [1, pmax, pmax + 1, n] {
                        // one call, and the same call followed by one more block (what the first call left behind)
                        for extra in [0usize, 1] {
                            if nn + extra > n {
                                continue;
                            }
                            rep.case(|| {
                                let mut pieces = vec![p(nn * a.gran, Kind::InPlace)];
                                if extra == 1 {
                                    pieces.push(p(a.gran, Kind::B2b));
                                }
                                let tot = (nn + extra) * a.gran;
                                let oa = (a.run)(key, &iv, &data[..tot], &pieces, &pre)?;
                                let ob = (b.run)(key, &iv, &data[..tot], &pieces, &pre)?;
                                ensure!(oa.out == ob.out && oa.state == ob.state, format!("width_dependence/{}", a.name), "{} blocks (+{}) through {}: parallel width {} gives {} but width {} gives {}", nn, extra, a.name, par_of(base), short(&oa.out), par_of(other), short(&ob.out));
                                Ok(())
                            });
                        }
                    }
                }
            }
        }
        // CTS one-shots: batching is internal, the parallel width is the only handle
        for (da, other) in group[1..].iter().map(|o| (base, *o)) {
            for (ca, cb) in da.cts.iter().zip(&other.cts) {
                for dir in [Dir::Enc, Dir::Dec] {
                    let iv = pattern(seed, 0x1717, bs);
                    for l in [bs, bs + 1, 2 * bs, pmax * bs + 1, (pmax + 1) * bs, (2 * pmax + 1) * bs + bs / 2, n * bs, n * bs + bs - 1] {
                        for k in KINDS {
                            rep.case(|| {
                                let a = fe_cts(da, ca, dir);
                                let b = fe_cts(other, cb, dir);
                                let oa = (a.run)(key, &iv, &data[..l], &[p(l, k)], &pre)?;
                                let ob = (b.run)(key, &iv, &data[..l], &[p(l, k)], &pre)?;
                                ensure!(oa.out == ob.out, format!("width_dependence/{}-{}", ca.name, dir.s()), "{} {} of {} bytes: parallel width {} gives {} but width {} gives {}", ca.name, dir.s(), l, par_of(da), short(&oa.out), par_of(other), short(&ob.out));
                                Ok(())
                            });
                        }
                    }
                }
            }
        }
        rep.finish()
    });
    let mut o = merge(reports);
    extend(&mut o, merge(r1d));
    extend(&mut o, merge(rhuge));
    extend(&mut o, merge(r4));
    o.rule = "per block-oriented entry point (cbc, pcbc, ige, cfb, cfb8 as 1-byte blocks, ofb as encryptor/decryptor/core, the six CTR cores and the BelT core through apply_keystream_blocks and write_keystream_blocks): (1) stateless: ALL compositions of n blocks into calls x {in place, b2b} per piece, one-block pieces through the single-block entry points; (2) deviation-bounded: every set of <= k split points on a 4*PAR+3 block input, in place and b2b; (3) merged BFS over call sizes {1,2,PAR-1,PAR,PAR+1,2PAR,2PAR+1,3PAR+1} x kind with the singleton-canonical-state-per-offset invariant (key = blocks consumed, exported state, output of a two-block probe); (4) identical inputs under every parallel width of the same block size, including the CTS one-shots. Oracle: bytes and chaining state after every call equal the reference (= the one-block-at-a-time run)".into();
    o.configs = cfgs.iter().map(|c| c.name.clone()).collect();
    o.bounds = vec![("compositions_max_blocks".into(), J::Int(tier.pick(7, 9))), ("deviation_input_blocks".into(), J::Str("4*PAR+3".into())), ("max_split_deviations".into(), J::Int(tier.pick(2, 3))), ("bfs_input_blocks".into(), J::Str(tier.pick("max(24, 4*PAR+3)", "max(64, 4*PAR+3)").into())), ("ivs_x_data".into(), J::Int(tier.pick(1, 4)))];
    o.assumptions = vec!["the harness cipher's permutation does not depend on its declared parallel width, so outputs are comparable across widths".into(), "non-vacuity counters (blocks that went through the backend's par / tail / single entry points) are reported, never required".into()];
    o
}
