//! Oracle validation: the reference models, instantiated with the real ciphers, must reproduce the
//! published vectors (copies of the `.blb` files and in-source tables of `/repo`'s tests, taken at the
//! pinned snapshot and stored under `/verif/mc/vectors`).  This binds the oracle to the standards
//! independently of the implementation.  A disagreement is a machinery error, never a verdict.
use base::api::*;
use base::json::unhex;
use base::refmodel as rf;

fn read_vlq(data: &[u8], pos: &mut usize) -> Option<usize> {
    let b = *data.get(*pos)?;
    *pos += 1;
    let mut next = b & 0x80;
    let mut val = (b & 0x7f) as usize;
    for _ in 0..3 {
        if next == 0 {
            return Some(val);
        }
        let b = *data.get(*pos)?;
        *pos += 1;
        next = b & 0x80;
        val = ((val + 1) << 7) + (b & 0x7f) as usize;
    }
    if next != 0 { None } else { Some(val) }
}
pub fn blobs(data: &[u8]) -> Option<Vec<Vec<u8>>> {
    let mut pos = 0;
    let d = read_vlq(data, &mut pos)?;
    let mut dedup = vec![];
    for _ in 0..d {
        let m = read_vlq(data, &mut pos)?;
        dedup.push(data.get(pos..pos + m)?.to_vec());
        pos += m;
    }
    let mut out = vec![];
    while pos < data.len() {
        let n = read_vlq(data, &mut pos)?;
        if n & 1 == 0 {
            let m = n >> 1;
            out.push(data.get(pos..pos + m)?.to_vec());
            pos += m;
        } else {
            out.push(dedup.get(n >> 1)?.clone());
        }
    }
    Some(out)
}

fn h(s: &str) -> Vec<u8> {
    unhex(&s.chars().filter(|c| !c.is_whitespace()).collect::<String>().to_lowercase()).expect("harness: bad hex literal")
}

type Model = fn(&rf::Ciph, &[u8], &[u8]) -> Vec<u8>;

/// (file, cipher cfg name, enc model, dec model)
fn blb_table() -> Vec<(&'static str, &'static [u8], &'static str, Model, Model)> {
    fn cbc_e(c: &rf::Ciph, iv: &[u8], d: &[u8]) -> Vec<u8> { rf::cbc_enc(c, iv, d).0 }
    fn cbc_d(c: &rf::Ciph, iv: &[u8], d: &[u8]) -> Vec<u8> { rf::cbc_dec(c, iv, d).0 }
    fn pcbc_e(c: &rf::Ciph, iv: &[u8], d: &[u8]) -> Vec<u8> { rf::pcbc_enc(c, iv, d).0 }
    fn pcbc_d(c: &rf::Ciph, iv: &[u8], d: &[u8]) -> Vec<u8> { rf::pcbc_dec(c, iv, d).0 }
    fn ige_e(c: &rf::Ciph, iv: &[u8], d: &[u8]) -> Vec<u8> { rf::ige_enc(c, iv, d).0 }
    fn ige_d(c: &rf::Ciph, iv: &[u8], d: &[u8]) -> Vec<u8> { rf::ige_dec(c, iv, d).0 }
    fn cfb_e(c: &rf::Ciph, iv: &[u8], d: &[u8]) -> Vec<u8> { rf::cfb_enc(c, iv, d).0 }
    fn cfb_d(c: &rf::Ciph, iv: &[u8], d: &[u8]) -> Vec<u8> { rf::cfb_dec(c, iv, d).0 }
    fn cfb8_e(c: &rf::Ciph, iv: &[u8], d: &[u8]) -> Vec<u8> { rf::cfb8_enc(c, iv, d).0 }
    fn cfb8_d(c: &rf::Ciph, iv: &[u8], d: &[u8]) -> Vec<u8> { rf::cfb8_dec(c, iv, d).0 }
    fn ofb(c: &rf::Ciph, iv: &[u8], d: &[u8]) -> Vec<u8> { rf::ofb(c, iv, d).0 }
    fn ctr128be(c: &rf::Ciph, iv: &[u8], d: &[u8]) -> Vec<u8> { rf::x(d, &rf::ctr_ks(c, iv, 128, true, 0, 0, d.len())) }
    fn belt(c: &rf::Ciph, iv: &[u8], d: &[u8]) -> Vec<u8> { rf::x(d, &rf::belt_ks(c, iv, 0, 0, d.len())) }
    vec![
        ("cbc-aes128.blb", include_bytes!("../../vectors/cbc-aes128.blb"), "Aes128", cbc_e, cbc_d),
        ("pcbc-aes128.blb", include_bytes!("../../vectors/pcbc-aes128.blb"), "Aes128", pcbc_e, pcbc_d),
        ("ige-aes128.blb", include_bytes!("../../vectors/ige-aes128.blb"), "Aes128", ige_e, ige_d),
        ("cfb-mode-aes128.blb", include_bytes!("../../vectors/cfb-mode-aes128.blb"), "Aes128", cfb_e, cfb_d),
        ("cfb-mode-belt.blb", include_bytes!("../../vectors/cfb-mode-belt.blb"), "BeltBlock", cfb_e, cfb_d),
        ("cfb8-aes128.blb", include_bytes!("../../vectors/cfb8-aes128.blb"), "Aes128", cfb8_e, cfb8_d),
        ("ofb-aes128.blb", include_bytes!("../../vectors/ofb-aes128.blb"), "Aes128", ofb, ofb),
        ("ctr-aes128-ctr.blb", include_bytes!("../../vectors/ctr-aes128-ctr.blb"), "Aes128", ctr128be, ctr128be),
        ("belt-ctr-belt-ctr.blb", include_bytes!("../../vectors/belt-ctr-belt-ctr.blb"), "BeltBlock", belt, belt),
    ]
}

/// Returns the number of published vectors the reference models reproduced.
pub fn selftest(reg: &Registry) -> Result<usize, String> {
    let mut n = 0;
    let find = |name: &str| reg.cfgs.iter().find(|c| c.name == name);
    for (file, data, cname, enc, dec) in blb_table() {
        let Some(cfg) = find(cname) else { continue };
        let bl = blobs(data).ok_or_else(|| format!("{file}: cannot parse"))?;
        if bl.len() % 4 != 0 || bl.is_empty() {
            return Err(format!("{file}: {} blobs", bl.len()));
        }
        for (i, v) in bl.chunks(4).enumerate() {
            let (key, iv, pt, ct) = (&v[0], &v[1], &v[2], &v[3]);
            if key.len() != cfg.key_len {
                return Err(format!("{file}#{i}: key length {}", key.len()));
            }
            let c = rf::Ciph::new(cfg, key);
            if enc(&c, iv, pt) != *ct {
                return Err(format!("{file}#{i}: reference encryption disagrees with the published vector"));
            }
            if dec(&c, iv, ct) != *pt {
                return Err(format!("{file}#{i}: reference decryption disagrees with the published vector"));
            }
            n += 1;
        }
    }
    // RFC 3962 appendix B (CBC-CS3 with AES-128, zero IV)
    if let Some(cfg) = find("Aes128") {
        let key = h("636869636b656e207465726979616b69");
        let iv = [0u8; 16];
        let c = rf::Ciph::new(cfg, &key);
        let vs = [
            ("4920776f756c64206c696b652074686520", "c6353568f2bf8cb4d8a580362da7ff7f97"),
            ("4920776f756c64206c696b65207468652047656e6572616c20476175277320", "fc00783e0efdb2c1d445d4c8eff7ed2297687268d6ecccc0c07b25e25ecfe5"),
            ("4920776f756c64206c696b65207468652047656e6572616c2047617527732043", "39312523a78662d5be7fcbcc98ebf5a897687268d6ecccc0c07b25e25ecfe584"),
            (
                "4920776f756c64206c696b65207468652047656e6572616c20476175277320436869636b656e2c20706c656173652c",
                "97687268d6ecccc0c07b25e25ecfe584b3fffd940c16a18c1b5549d2f838029e39312523a78662d5be7fcbcc98ebf5",
            ),
            (
                "4920776f756c64206c696b65207468652047656e6572616c20476175277320436869636b656e2c20706c656173652c20",
                "97687268d6ecccc0c07b25e25ecfe5849dad8bbb96c4cdc03bc103e1a194bbd839312523a78662d5be7fcbcc98ebf5a8",
            ),
            (
                "4920776f756c64206c696b65207468652047656e6572616c20476175277320436869636b656e2c20706c656173652c20616e6420776f6e746f6e20736f75702e",
                "97687268d6ecccc0c07b25e25ecfe58439312523a78662d5be7fcbcc98ebf5a84807efe836ee89a526730dbc2f7bc8409dad8bbb96c4cdc03bc103e1a194bbd8",
            ),
        ];
        for (i, (pt, ct)) in vs.iter().enumerate() {
            let (pt, ct) = (h(pt), h(ct));
            if rf::cts_enc(&c, Some(&iv), 3, &pt) != ct {
                return Err(format!("rfc3962#{i}: reference CBC-CS3 encryption disagrees"));
            }
            if rf::cts_dec(&c, Some(&iv), 3, &ct) != pt {
                return Err(format!("rfc3962#{i}: reference CBC-CS3 decryption disagrees"));
            }
            n += 1;
        }
    }
    // STB 34.101.31-2020 A.4 tables A.9-10 (belt-ecb = ECB-CS2)
    if let Some(cfg) = find("BeltBlock") {
        let k1 = h("E9DEE72C8F0C0FA62DDB49F46F73964706075316ED247A3739CBA38303A98BF6");
        let k2 = h("92BD9B1CE5D141015445FBC95E4D0EF2682080AA227D642F2687F93490405511");
        let vs = [
            (&k1, "B194BAC80A08F53B366D008E584A5DE48504FA9D1BB6C7AC252E72C202FDCE0D5BE3D61217B96181FE6786AD716B890B", "69CCA1C93557C9E3D66BC3E0FA88FA6E5F23102EF109710775017F73806DA9DC46FB2ED2CE771F26DCB5E5D1569F9AB0"),
            (&k1, "B194BAC80A08F53B366D008E584A5DE48504FA9D1BB6C7AC252E72C202FDCE0D5BE3D61217B96181FE6786AD716B89", "69CCA1C93557C9E3D66BC3E0FA88FA6E36F00CFED6D1CA1498C12798F4BEB2075F23102EF109710775017F73806DA9"),
            (&k2, "0DC5300600CAB840B38448E5E993F421E55A239F2AB5C5D5FDB6E81B40938E2A54120CA3E6E19C7AD750FC3531DAEAB7", "E12BDC1AE28257EC703FCCF095EE8DF1C1AB76389FE678CAF7C6F860D5BB9C4FF33C657B637C306ADD4EA7799EB23D31"),
            (&k2, "0DC5300600CAB840B38448E5E993F4215780A6E2B69EAFBB258726D7B6718523E55A239F", "E12BDC1AE28257EC703FCCF095EE8DF1C1AB76389FE678CAF7C6F860D5BB9C4FF33C657B"),
        ];
        for (i, (key, pt, ct)) in vs.iter().enumerate() {
            let (pt, ct) = (h(pt), h(ct));
            let c = rf::Ciph::new(cfg, key);
            // decryption direction of the last table entry is given as a decryption vector in the standard
            let ok_enc = rf::cts_enc(&c, None, 2, &pt) == ct;
            let ok_dec = rf::cts_dec(&c, None, 2, &ct) == pt;
            if !(ok_enc && ok_dec) {
                return Err(format!("belt-ecb#{i}: reference ECB-CS2 disagrees (enc ok: {ok_enc}, dec ok: {ok_dec})"));
            }
            n += 1;
        }
    }
    // GOST R 34.13-2015 A.1.2 / A.2.2 (CTR)
    if let Some(cfg) = find("Kuznyechik") {
        let c = rf::Ciph::new(cfg, &h("8899aabbccddeeff0011223344556677fedcba98765432100123456789abcdef"));
        let iv = h("1234567890abcef00000000000000000");
        let pt = h("1122334455667700ffeeddccbbaa998800112233445566778899aabbcceeff0a112233445566778899aabbcceeff0a002233445566778899aabbcceeff0a0011");
        let ct = h("f195d8bec10ed1dbd57b5fa240bda1b885eee733f6a13e5df33ce4b33c45dee4a5eae88be6356ed3d5e877f13564a3a5cb91fab1f20cbab6d1c6d15820bdba73");
        if rf::x(&pt, &rf::ctr_ks(&c, &iv, 64, true, 0, 0, pt.len())) != ct {
            return Err("gost kuznyechik ctr: reference disagrees".into());
        }
        n += 1;
    }
    if let Some(cfg) = find("Magma") {
        let c = rf::Ciph::new(cfg, &h("ffeeddccbbaa99887766554433221100f0f1f2f3f4f5f6f7f8f9fafbfcfdfeff"));
        let iv = h("1234567800000000");
        let pt = h("92def06b3c130a59db54c704f8189d204a98fb2e67a8024c8912409b17b57e41");
        let ct = h("4e98110c97b7b93c3e250d93d6e85d69136d868807b2dbef568eb680ab52a12d");
        if rf::x(&pt, &rf::ctr_ks(&c, &iv, 32, true, 0, 0, pt.len())) != ct {
            return Err("gost magma ctr: reference disagrees".into());
        }
        n += 1;
    }
    // toy cipher sanity on every toy configuration: D∘E = id, E != D, E(x) != x, key-dependence, diffusion
    for cfg in reg.cfgs.iter().filter(|c| c.is_toy()) {
        let keys = crate::ctx::keys(1, cfg.key_len);
        let c0 = rf::Ciph::new(cfg, &keys[0]);
        let c1 = rf::Ciph::new(cfg, &keys[1]);
        let mut inputs: Vec<Vec<u8>> = vec![vec![0; cfg.bs], vec![0xff; cfg.bs], crate::ctx::pattern(1, 7, cfg.bs)];
        if cfg.bs <= 2 {
            inputs = (0..(1usize << (8 * cfg.bs))).map(|v| (0..cfg.bs).map(|j| (v >> (8 * j)) as u8).collect()).collect();
        }
        let mut fixed = 0usize;
        let mut same_ed = 0usize;
        let mut same_key = 0usize;
        for x in &inputs {
            let e = c0.e(x);
            if c0.d(&e) != *x || c0.e(&c0.d(x)) != *x {
                return Err(format!("toy cipher {} is not a bijection", cfg.name));
            }
            fixed += (e == *x) as usize;
            same_ed += (e == c0.d(x)) as usize;
            same_key += (e == c1.e(x)) as usize;
        }
        // for 1- and 2-byte blocks a few coincidences are unavoidable; they must be rare
        let lim = inputs.len() / 8 + 1;
        if cfg.bs > 2 && (fixed > 0 || same_ed > 0 || same_key > 0) || fixed > lim || same_ed > lim || same_key > lim {
            return Err(format!("toy cipher {}: degenerate (fixed {fixed}, E=D {same_ed}, key-independent {same_key} of {})", cfg.name, inputs.len()));
        }
        if cfg.bs >= 3 {
            // flipping one input bit changes every output byte position for at least one of the probes
            let x = crate::ctx::pattern(1, 9, cfg.bs);
            let e = c0.e(&x);
            let mut touched = vec![false; cfg.bs];
            for bit in 0..(8 * cfg.bs).min(64) {
                let mut y = x.clone();
                y[bit / 8] ^= 1 << (bit % 8);
                for (t, (a, b)) in touched.iter_mut().zip(c0.e(&y).iter().zip(&e)) {
                    *t |= a != b;
                }
            }
            if touched.iter().any(|t| !t) {
                return Err(format!("toy cipher {}: incomplete diffusion", cfg.name));
            }
            // non-linearity: E(a^b) != E(a)^E(b)^E(0)
            let a = crate::ctx::pattern(1, 11, cfg.bs);
            let b = crate::ctx::pattern(1, 13, cfg.bs);
            let z = vec![0u8; cfg.bs];
            if c0.e(&rf::x(&a, &b)) == rf::x(&rf::x(&c0.e(&a), &c0.e(&b)), &c0.e(&z)) {
                return Err(format!("toy cipher {}: affine on the probe", cfg.name));
            }
        }
        n += 1;
    }
    Ok(n)
}
