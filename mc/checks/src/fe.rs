//! Front-ends: every public way of pushing a byte string through a mode, behind one calling
//! convention (`pieces` = the caller's cut of the data into calls).  Used by C01, C03, C07, C08,
//! C12, C14 and C15.
use crate::ctx::*;
use crate::rec;
use base::api::*;
use base::refmodel as rf;

/// one call: `len` bytes, call form, and whether a one-block piece uses the single-block entry point
#[derive(Clone, Copy, Debug, PartialEq, Eq, Hash, PartialOrd, Ord)]
pub struct P {
    pub len: usize,
    pub kind: Kind,
    pub single: bool,
    /// 0 = the cipher crate's own contexts; 1..=8 = a caller-supplied rank-2 closure passed to `*_with_backend` /
    /// `process_with_backend` (shapes: see `base::api::BlockMode::many_closure`); 9 (keystream cores only) =
    /// `write_keystream_block` (single) / `write_keystream_blocks` into a scratch buffer that the harness XORs in
    pub closure: u8,
}
pub fn p(len: usize, kind: Kind) -> P {
    P { len, kind, single: false, closure: 0 }
}
/// a piece processed in place through a caller-supplied closure (see `P::closure`)
pub fn pc(len: usize, mode: u8) -> P {
    P { len, kind: Kind::InPlace, single: false, closure: mode }
}
pub fn ps(pieces: &[P]) -> String {
    pieces.iter().map(|p| format!("{}{}{}{}", p.len, if p.single { "s" } else { "" }, match p.closure { 0 => "", 1 => "c", 2 => "t", 3 => "ci", 4 => "ti", 5 => "cs", 6 => "cm", 7 => "cbi", 8 => "cib", _ => "w" }, match p.kind { Kind::InPlace => "", Kind::B2b => "b", Kind::InOut => "x", Kind::Alias => "a" })).collect::<Vec<_>>().join(",")
}

pub struct FeOut {
    pub out: Vec<u8>,
    /// exported chaining value after every piece (block-level objects and keystream cores only)
    pub states: Vec<Vec<u8>>,
    /// exported chaining value at the end (types with `IvState`), when the pieces end on a block boundary
    pub state: Option<Vec<u8>>,
}

pub type FeRun<'a> = Box<dyn Fn(&[u8], &[u8], &[u8], &[P], &[u8]) -> Result<FeOut, Fail> + Sync + 'a>;

pub struct Fe<'a> {
    pub name: String,
    /// type path for messages
    pub ty: String,
    /// piece lengths must be multiples of this
    pub gran: usize,
    /// may the data be cut into several pieces?
    pub multi: bool,
    /// has a single-block entry point (`P::single` allowed for pieces of exactly `gran` bytes)
    pub singles: bool,
    /// the `P::closure` values the front-end understands besides 0
    pub closures: Vec<u8>,
    pub kinds: Vec<Kind>,
    /// minimum total length accepted
    pub min_len: usize,
    /// run(key, iv, data, pieces, prefill): prefill is the initial content of separate output buffers
    pub run: FeRun<'a>,
}

impl Fe<'_> {
    /// every call form this front-end offers for a piece of `n` granules
    pub fn forms(&self, n: usize) -> Vec<P> {
        let len = n * self.gran;
        let mut v = vec![];
        for &kind in &self.kinds {
            v.push(P { len, kind, single: false, closure: 0 });
            if n == 1 && self.singles {
                v.push(P { len, kind, single: true, closure: 0 });
            }
        }
        for &c in &self.closures {
            if c == 9 {
                v.push(P { len, kind: Kind::InPlace, single: false, closure: 9 });
                if n == 1 {
                    v.push(P { len, kind: Kind::InPlace, single: true, closure: 9 });
                }
            } else {
                v.push(pc(len, c));
            }
        }
        v
    }
}

fn take<'b>(data: &'b [u8], off: &mut usize, n: usize) -> &'b [u8] {
    let s = &data[*off..*off + n];
    *off += n;
    s
}
fn outbuf(kind: Kind, inp: &[u8], prefill: &[u8], off: usize) -> Vec<u8> {
    if kind.in_place() { inp.to_vec() } else { prefill[off..off + inp.len()].to_vec() }
}
fn check_pieces(pieces: &[P], total: usize) {
    assert_eq!(pieces.iter().map(|p| p.len).sum::<usize>(), total, "harness: pieces do not cover the data");
}

/// block-mode object front-end (`BlockModeEncrypt`/`BlockModeDecrypt` methods)
pub fn fe_bm<'a>(cfg: &'a Cfg, d: &'a BlockModeDesc) -> Fe<'a> {
    Fe {
        name: format!("{}-{}/blocks", d.mode, d.dir.s()),
        ty: d.ty.clone(),
        gran: d.mbs,
        multi: true,
        singles: true,
        closures: vec![1, 2, 3, 4, 5, 6, 7, 8],
        kinds: KINDS.to_vec(),
        min_len: 0,
        run: Box::new(move |key, iv, data, pieces, prefill| {
            check_pieces(pieces, data.len());
            let mut obj = rec::bm(cfg, d, key, iv);
            let mut off = 0;
            let mut out = Vec::with_capacity(data.len());
            let mut states = vec![];
            for pc in pieces {
                let o0 = off;
                let inp = take(data, &mut off, pc.len);
                let mut ob = outbuf(pc.kind, inp, prefill, o0);
                if pc.closure != 0 {
                    ob = inp.to_vec();
                    obj.many_closure(pc.closure, &mut ob);
                } else if pc.single {
                    assert_eq!(pc.len, d.mbs, "harness: single piece must be one block");
                    obj.one(pc.kind, inp, &mut ob);
                } else if obj.many(pc.kind, inp, &mut ob).is_err() {
                    return fail(format!("equal_length_call_refused/{}-{}", d.mode, d.dir.s()), format!("{} {}-byte call ({}) with equal lengths returned Err", d.ty, pc.len, pc.kind.s()));
                }
                out.extend(ob);
                states.push(obj.iv_state());
            }
            let state = Some(states.last().cloned().unwrap_or_else(|| obj.iv_state()));
            Ok(FeOut { out, states, state })
        }),
    }
}
/// `AsyncStreamCipher` one-shot front-end (cfb, cfb8)
pub fn fe_oneshot<'a>(cfg: &'a Cfg, d: &'a BlockModeDesc) -> Fe<'a> {
    Fe {
        name: format!("{}-{}/oneshot", d.mode, d.dir.s()),
        ty: d.ty.clone(),
        gran: 1,
        multi: false,
        singles: false,
        closures: vec![],
        kinds: KINDS.to_vec(),
        min_len: 0,
        run: Box::new(move |key, iv, data, pieces, prefill| {
            assert!(pieces.len() == 1 && pieces[0].len == data.len(), "harness: one-shot takes one piece");
            let obj = rec::bm(cfg, d, key, iv);
            let mut ob = outbuf(pieces[0].kind, data, prefill, 0);
            match obj.oneshot(pieces[0].kind, data, &mut ob) {
                Some(Ok(())) => Ok(FeOut { out: ob, states: vec![], state: None }),
                Some(Err(())) => fail(format!("equal_length_call_refused/{}-{}", d.mode, d.dir.s()), format!("{} one-shot ({}) with equal lengths returned Err", d.ty, pieces[0].kind.s())),
                None => panic!("harness: {} is not an AsyncStreamCipher", d.ty),
            }
        }),
    }
}
/// buffered CFB front-end
pub fn fe_buf<'a>(cfg: &'a Cfg, d: &'a BufCfbDesc) -> Fe<'a> {
    Fe {
        name: format!("cfb-{}/buffered", d.dir.s()),
        ty: d.ty.clone(),
        gran: 1,
        multi: true,
        singles: false,
        closures: vec![],
        kinds: vec![Kind::InPlace],
        min_len: 0,
        run: Box::new(move |key, iv, data, pieces, _prefill| {
            check_pieces(pieces, data.len());
            let mut obj = rec::buf(cfg, d, key, iv);
            let mut off = 0;
            let mut out = Vec::with_capacity(data.len());
            for pc in pieces {
                let mut ob = take(data, &mut off, pc.len).to_vec();
                obj.process(&mut ob);
                out.extend(ob);
            }
            Ok(FeOut { out, states: vec![], state: None })
        }),
    }
}
/// core front-ends: "apply" = apply_keystream_blocks{,_inout} / apply_keystream_block_inout,
/// "write" = write_keystream_block(s) XOR data done by the harness
pub fn fe_core<'a>(cfg: &'a Cfg, d: &'a CoreDesc, write: bool) -> Fe<'a> {
    Fe {
        name: format!("{}/core-{}", d.mode, if write { "write_keystream" } else { "apply_keystream_blocks" }),
        ty: d.ty.clone(),
        gran: cfg.bs,
        multi: true,
        singles: true,
        closures: if write { vec![1, 2, 5, 6] } else { vec![1, 2, 5, 6, 9] },
        kinds: if write { vec![Kind::InPlace] } else { KINDS.to_vec() },
        min_len: 0,
        run: Box::new(move |key, iv, data, pieces, prefill| {
            check_pieces(pieces, data.len());
            let mut obj = rec::core(cfg, d, key, iv);
            let mut off = 0;
            let mut out = Vec::with_capacity(data.len());
            let mut states = vec![];
            for pc in pieces {
                let o0 = off;
                let inp = take(data, &mut off, pc.len);
                if write {
                    // dirty keystream buffer: write_* must overwrite it completely
                    let mut ks = prefill[o0..o0 + pc.len].to_vec();
                    if pc.closure != 0 {
                        obj.write_blocks_closure(pc.closure, &mut ks);
                    } else if pc.single {
                        obj.write_block(&mut ks);
                    } else {
                        obj.write_blocks(&mut ks);
                    }
                    out.extend(rf::x(inp, &ks));
                } else {
                    let mut ob = outbuf(pc.kind, inp, prefill, o0);
                    if pc.closure != 0 {
                        let mut ks = prefill[o0..o0 + pc.len].to_vec();
                        match (pc.closure, pc.single) {
                            (9, true) => obj.write_block(&mut ks),
                            (9, false) => obj.write_blocks(&mut ks),
                            (m, _) => obj.write_blocks_closure(m, &mut ks),
                        }
                        ob = rf::x(inp, &ks);
                    } else if pc.single {
                        obj.apply_block(pc.kind, inp, &mut ob);
                    } else if obj.apply_blocks(pc.kind, inp, &mut ob).is_err() {
                        return fail(format!("equal_length_call_refused/{}", d.mode), format!("{} apply_keystream_blocks_inout with equal lengths returned Err", d.ty));
                    }
                    out.extend(ob);
                }
                states.push(obj.iv_state());
            }
            let state = Some(states.last().cloned().unwrap_or_else(|| obj.iv_state()));
            Ok(FeOut { out, states, state })
        }),
    }
}
/// byte-level stream cipher front-end (the `StreamCipherCoreWrapper` aliases)
pub fn fe_stream<'a>(cfg: &'a Cfg, d: &'a CoreDesc) -> Fe<'a> {
    Fe {
        name: format!("{}/stream", d.mode),
        ty: format!("StreamCipherCoreWrapper<{}>", d.ty),
        gran: 1,
        multi: true,
        singles: false,
        closures: vec![],
        kinds: KINDS.to_vec(),
        min_len: 0,
        run: Box::new(move |key, iv, data, pieces, prefill| {
            check_pieces(pieces, data.len());
            let mut obj = rec::stream(cfg, d, key, iv);
            let mut off = 0;
            let mut out = Vec::with_capacity(data.len());
            for pc in pieces {
                let o0 = off;
                let inp = take(data, &mut off, pc.len);
                let mut ob = outbuf(pc.kind, inp, prefill, o0);
                if obj.apply(pc.kind, inp, &mut ob).is_err() {
                    return fail(format!("request_refused/{}", d.mode), format!("{} refused a {}-byte request at offset {} (far from the keystream limit)", d.ty, pc.len, o0));
                }
                out.extend(ob);
            }
            let state = if data.len() % cfg.bs == 0 { Some(obj.core_iv_state()) } else { None };
            Ok(FeOut { out, states: vec![], state })
        }),
    }
}
/// ciphertext-stealing one-shot front-end
pub fn fe_cts<'a>(cfg: &'a Cfg, d: &'a CtsDesc, dir: Dir) -> Fe<'a> {
    Fe {
        name: format!("{}-{}", d.name, dir.s()),
        ty: d.ty.clone(),
        gran: 1,
        multi: false,
        singles: false,
        closures: vec![],
        kinds: KINDS.to_vec(),
        min_len: cfg.bs,
        run: Box::new(move |key, iv, data, pieces, prefill| {
            assert!(pieces.len() == 1 && pieces[0].len == data.len(), "harness: one-shot takes one piece");
            let mut ob = outbuf(pieces[0].kind, data, prefill, 0);
            match rec::cts(cfg, d, Ctor::Inner, false, dir, pieces[0].kind, key, iv, data, &mut ob).expect("harness: ctor") {
                Ok(()) => Ok(FeOut { out: ob, states: vec![], state: None }),
                Err(()) => fail(format!("accepted_length_refused/{}", d.name), format!("{} {}({}) of {} bytes returned Err", d.ty, dir.s(), pieces[0].kind.s(), data.len())),
            }
        }),
    }
}

/// reference function of a mode family: (key, iv, data) -> (output, final chaining value if on a block boundary)
pub fn family_ref(cfg: &Cfg, family: &str, dir: Dir, key: &[u8], iv: &[u8], data: &[u8]) -> (Vec<u8>, Option<Vec<u8>>) {
    let c = rf::Ciph::new(cfg, key);
    let bs = cfg.bs;
    match family {
        "cbc" | "pcbc" | "ige" | "cfb" | "cfb8" | "ofb" => {
            let mbs = if family == "cfb8" { 1 } else { bs };
            let (o, s) = crate::modes::bm_ref_fn(family, dir)(&c, iv, data);
            (o, if data.len() % mbs == 0 { Some(s) } else { None })
        }
        "belt" => {
            let o = rf::x(data, &rf::belt_ks(&c, iv, 0, 0, data.len()));
            // exported state = D(s) with s = s_0 + blocks generated, i.e. the value whose encryption is s
            let st = if data.len() % 16 == 0 { Some(c.d(&rf::le_add(&rf::belt_s0(&c, iv), (data.len() / 16) as u128))) } else { None };
            (o, st)
        }
        f if f.starts_with("ctr") => {
            let d = cfg.core(f).expect("harness: ctr flavour");
            let o = rf::x(data, &rf::ctr_ks(&c, iv, d.w, d.be, 0, 0, data.len()));
            let st = if data.len() % bs == 0 { Some(rf::ctr_block(iv, d.w, d.be, (data.len() / bs) as u128)) } else { None };
            (o, st)
        }
        _ => panic!("harness: unknown family {family}"),
    }
}
pub fn cts_ref(cfg: &Cfg, d: &CtsDesc, dir: Dir, key: &[u8], iv: &[u8], data: &[u8]) -> Vec<u8> {
    let c = rf::Ciph::new(cfg, key);
    let ivo = if d.cbc { Some(iv) } else { None };
    match dir {
        Dir::Enc => rf::cts_enc(&c, ivo, d.variant, data),
        Dir::Dec => rf::cts_dec(&c, ivo, d.variant, data),
    }
}

/// all front-ends of a block-mode family in one direction
pub fn family_frontends<'a>(cfg: &'a Cfg, family: &str, dir: Dir) -> Vec<Fe<'a>> {
    let mut v = vec![];
    match family {
        "cbc" | "pcbc" | "ige" => {
            if let Some(d) = cfg.block_mode(family, dir) {
                v.push(fe_bm(cfg, d));
            }
        }
        "cfb" => {
            if let Some(d) = cfg.block_mode("cfb", dir) {
                v.push(fe_bm(cfg, d));
                v.push(fe_oneshot(cfg, d));
            }
            if let Some(d) = cfg.bufcfb.iter().find(|b| b.dir == dir) {
                v.push(fe_buf(cfg, d));
            }
        }
        "cfb8" => {
            if let Some(d) = cfg.block_mode("cfb8", dir) {
                v.push(fe_bm(cfg, d));
                v.push(fe_oneshot(cfg, d));
            }
        }
        "ofb" => {
            // one function: block encryptor, block decryptor, keystream core, byte-level stream cipher
            for dd in [Dir::Enc, Dir::Dec] {
                if let Some(d) = cfg.block_mode("ofb", dd) {
                    v.push(fe_bm(cfg, d));
                }
            }
            if let Some(d) = cfg.core("ofb") {
                v.push(fe_core(cfg, d, false));
                v.push(fe_core(cfg, d, true));
                v.push(fe_stream(cfg, d));
            }
        }
        f => {
            if let Some(d) = cfg.core(f) {
                v.push(fe_core(cfg, d, false));
                v.push(fe_core(cfg, d, true));
                v.push(fe_stream(cfg, d));
            }
        }
    }
    v
}

/// byte lengths explored for a block size: every length for small blocks, the boundary residues otherwise
pub fn byte_lengths(bs: usize, max: usize) -> Vec<usize> {
    if bs <= 16 {
        return (0..=max).collect();
    }
    let mut v = std::collections::BTreeSet::new();
    for k in 0..=max / bs {
        for r in [0, 1, 2, bs / 2, bs - 2, bs - 1] {
            if k * bs + r <= max {
                v.insert(k * bs + r);
            }
        }
    }
    v.insert(max);
    v.into_iter().collect()
}
/// a few long lengths (past 8 and 16 blocks, whatever the parallel width): catches fixed bulk-path thresholds
pub fn long_lengths(bs: usize) -> Vec<usize> {
    let mut v = vec![8 * bs, 9 * bs - 1, 9 * bs + 1, 17 * bs + 1];
    if bs <= 16 {
        // past 64 and 256 blocks (1 KiB / 4 KiB with 16-byte blocks): size thresholds of "bulk" paths
        v.extend([65 * bs + 1, 257 * bs + 1]);
    }
    v
}
/// whole-block counterparts of `long_lengths` for the block-only modes
pub fn long_block_lengths(bs: usize) -> Vec<usize> {
    let mut v = vec![9 * bs, 17 * bs];
    if bs <= 16 {
        v.extend([65 * bs, 257 * bs]);
    }
    v
}
/// number of blocks a single call must be able to exceed: twice the parallel width and fixed thresholds up to 16
pub fn long_blocks(par: usize) -> usize {
    (2 * par).max(16) + 2
}
/// cut / piece-length candidates on a long input: block-boundary neighbourhoods
pub fn boundary_points(bs: usize, l: usize) -> Vec<usize> {
    let mut v = std::collections::BTreeSet::new();
    for k in 0..=l / bs {
        for r in [0usize, 1, bs / 2, bs - 1] {
            let p = k * bs + r;
            if p > 0 && p < l {
                v.insert(p);
            }
        }
    }
    v.into_iter().collect()
}
/// split points (0 < s < l) explored: all for small blocks, block-boundary neighbourhoods otherwise
pub fn split_points(bs: usize, l: usize, gran: usize) -> Vec<usize> {
    let all: Vec<usize> = (1..l).filter(|s| s % gran == 0).collect();
    if bs <= 8 || gran > 1 {
        return all;
    }
    all.into_iter().filter(|s| { let r = s % bs; r <= 1 || r >= bs - 1 || r == bs / 2 }).collect()
}
