//! Counting / recording proxies around the adapter objects, and the replay interpreter.
//!
//! Every real object the checks touch is created through this module.  The proxies count every API
//! call (the `transitions` figure of the evidence) and, when recording is on, append the call with
//! its inputs and observed outputs to a thread-local trace.  A trace is a complete, explorer-free
//! description of a history: `replay` re-executes it against fresh objects from the registry.
use base::api::*;
use base::json::{J, hex, obj, unhex};
use std::cell::{Cell, RefCell};

#[derive(Clone, Debug, PartialEq)]
pub struct Op {
    /// object the call is made on (0 for constructors)
    pub id: usize,
    /// id of the object created by this call (constructors, dup, into_stream), else 0
    pub new_id: usize,
    pub method: String,
    /// free-form arguments: kind / ctor / pad / seek type / numbers
    pub args: Vec<String>,
    pub inp: Vec<u8>,
    pub out_pre: Vec<u8>,
    // observations
    pub ret: String,
    pub out_post: Vec<u8>,
}

thread_local! {
    static TRANS: Cell<u64> = const { Cell::new(0) };
    static NEXT_ID: Cell<usize> = const { Cell::new(1) };
    static TRACE: RefCell<Option<Vec<Op>>> = const { RefCell::new(None) };
}
pub fn transitions() -> u64 {
    TRANS.with(|c| c.get())
}
pub fn trace_start() {
    NEXT_ID.with(|c| c.set(1));
    TRACE.with(|t| *t.borrow_mut() = Some(vec![]));
}
pub fn trace_take() -> Vec<Op> {
    TRACE.with(|t| t.borrow_mut().take().unwrap_or_default())
}
fn recording() -> bool {
    TRACE.with(|t| t.borrow().is_some())
}
fn fresh_id() -> usize {
    NEXT_ID.with(|c| {
        let v = c.get();
        c.set(v + 1);
        v
    })
}
#[inline]
fn tick() {
    TRANS.with(|c| c.set(c.get() + 1));
    // every proxied method and constructor starts here: see scrub_calls
    maybe_scrub();
}
fn push(op: Op) {
    TRACE.with(|t| {
        if let Some(v) = t.borrow_mut().as_mut() {
            v.push(op)
        }
    });
}
fn rs(r: &R) -> String {
    match r {
        Ok(()) => "Ok".into(),
        Err(()) => "Err".into(),
    }
}

// ---------------------------------------------------------------------------------------------
// constructors

fn ctor_op(cfg: &Cfg, what: &str, which: &str, ctor: Ctor, key: &[u8], iv: &[u8], ok: bool, new_id: usize) {
    if recording() {
        push(Op {
            id: 0,
            new_id,
            method: format!("new:{what}"),
            args: vec![cfg.name.clone(), which.to_string(), ctor.s().to_string(), hex(key)],
            inp: iv.to_vec(),
            out_pre: vec![],
            ret: if ok { "Ok".into() } else { "Err".into() },
            out_post: vec![],
        });
    }
}

pub fn new_bm(cfg: &Cfg, d: &BlockModeDesc, ctor: Ctor, key: &[u8], iv: &[u8]) -> Result<Box<dyn BlockMode>, ()> {
    tick();
    maybe_scrub();
    let r = (d.make)(ctor, key, iv);
    let id = if r.is_ok() { fresh_id() } else { 0 };
    ctor_op(cfg, "bm", &format!("{}-{}", d.mode, d.dir.s()), ctor, key, iv, r.is_ok(), id);
    r.map(|b| Box::new(RecBm { inner: b, id }) as Box<dyn BlockMode>)
}
pub fn bm(cfg: &Cfg, d: &BlockModeDesc, key: &[u8], iv: &[u8]) -> Box<dyn BlockMode> {
    new_bm(cfg, d, Ctor::Inner, key, iv).expect("harness: inner_iv_init with correct lengths")
}
pub fn new_core(cfg: &Cfg, d: &CoreDesc, ctor: Ctor, key: &[u8], iv: &[u8]) -> Result<Box<dyn Core>, ()> {
    tick();
    maybe_scrub();
    let r = (d.make)(ctor, key, iv);
    let id = if r.is_ok() { fresh_id() } else { 0 };
    ctor_op(cfg, "core", d.mode, ctor, key, iv, r.is_ok(), id);
    r.map(|b| Box::new(RecCore { inner: b, id }) as Box<dyn Core>)
}
pub fn core(cfg: &Cfg, d: &CoreDesc, key: &[u8], iv: &[u8]) -> Box<dyn Core> {
    new_core(cfg, d, Ctor::Inner, key, iv).expect("harness: inner_iv_init with correct lengths")
}
pub fn new_stream(cfg: &Cfg, d: &CoreDesc, ctor: Ctor, key: &[u8], iv: &[u8]) -> Result<Box<dyn Stream>, ()> {
    tick();
    maybe_scrub();
    let r = (d.make_stream)(ctor, key, iv);
    let id = if r.is_ok() { fresh_id() } else { 0 };
    ctor_op(cfg, "stream", d.mode, ctor, key, iv, r.is_ok(), id);
    r.map(|b| Box::new(RecStream { inner: b, id }) as Box<dyn Stream>)
}
pub fn stream(cfg: &Cfg, d: &CoreDesc, key: &[u8], iv: &[u8]) -> Box<dyn Stream> {
    new_stream(cfg, d, Ctor::KeyIv, key, iv).expect("harness: KeyIvInit::new with correct lengths")
}
pub fn new_buf(cfg: &Cfg, d: &BufCfbDesc, ctor: Ctor, key: &[u8], iv: &[u8]) -> Result<Box<dyn BufCfb>, ()> {
    tick();
    maybe_scrub();
    let r = (d.make)(ctor, key, iv);
    let id = if r.is_ok() { fresh_id() } else { 0 };
    ctor_op(cfg, "buf", d.dir.s(), ctor, key, iv, r.is_ok(), id);
    r.map(|b| Box::new(RecBuf { inner: b, id }) as Box<dyn BufCfb>)
}
pub fn buf(cfg: &Cfg, d: &BufCfbDesc, key: &[u8], iv: &[u8]) -> Box<dyn BufCfb> {
    new_buf(cfg, d, Ctor::Inner, key, iv).expect("harness: inner_iv_init with correct lengths")
}
pub fn buf_from_state(cfg: &Cfg, d: &BufCfbDesc, key: &[u8], block: &[u8], pos: usize) -> Box<dyn BufCfb> {
    tick();
    maybe_scrub();
    let b = (d.from_state)(key, block, pos);
    let id = fresh_id();
    if recording() {
        push(Op {
            id: 0,
            new_id: id,
            method: "new:buf_from_state".into(),
            args: vec![cfg.name.clone(), d.dir.s().to_string(), pos.to_string(), hex(key)],
            inp: block.to_vec(),
            out_pre: vec![],
            ret: "Ok".into(),
            out_post: vec![],
        });
    }
    Box::new(RecBuf { inner: b, id })
}
/// One ciphertext-stealing operation (object constructed, optionally cloned, consumed).
/// Outer `Err` = construction refused.
#[allow(clippy::too_many_arguments)]
pub fn cts(cfg: &Cfg, d: &CtsDesc, ctor: Ctor, clone_first: bool, dir: Dir, k: Kind, key: &[u8], iv: &[u8], inp: &[u8], out: &mut [u8]) -> Result<R, ()> {
    tick();
    let pre = if recording() { out.to_vec() } else { vec![] };
    let r = (d.run)(ctor, clone_first, dir, k, key, iv, inp, out);
    if recording() {
        push(Op {
            id: 0,
            new_id: 0,
            method: "cts".into(),
            args: vec![cfg.name.clone(), d.name.to_string(), ctor.s().to_string(), hex(key), hex(iv), clone_first.to_string(), dir.s().to_string(), k.s().to_string()],
            inp: inp.to_vec(),
            out_pre: pre,
            ret: match &r {
                Ok(r) => rs(r),
                Err(()) => "CtorErr".into(),
            },
            out_post: out.to_vec(),
        });
    }
    r
}

// ---------------------------------------------------------------------------------------------
// proxies

macro_rules! rec_call {
    ($self:ident, $method:expr, [$($arg:expr),*], $inp:expr, $out:expr, $call:expr, $ret:expr) => {{
        tick();
        if recording() {
            let pre: Vec<u8> = $out.to_vec();
            let inp: Vec<u8> = $inp.to_vec();
            maybe_scrub();
            let r = $call;
            push(Op { id: $self.id, new_id: 0, method: $method.to_string(), args: vec![$($arg.to_string()),*], inp, out_pre: pre, ret: $ret(&r), out_post: $out.to_vec() });
            r
        } else {
            maybe_scrub();
            $call
        }
    }};
}
thread_local! {
    static SCRUB: std::cell::Cell<bool> = const { std::cell::Cell::new(false) };
}
/// While on (C17's drop scan), the stack below the proxy is zeroed right before every call into the subject, whether or
/// not the call is being recorded: whatever ends up in bytes of the object that no field owns then comes from the
/// subject's own call, not from what the harness did in between, and is the same in the first and the confirming run.
pub fn scrub_calls(on: bool) {
    SCRUB.with(|s| s.set(on));
}
fn maybe_scrub() {
    if SCRUB.with(|s| s.get()) {
        crate::ctx::scrub_stack();
    }
}
fn unit_s(_: &()) -> String {
    "()".into()
}

pub struct RecBm {
    inner: Box<dyn BlockMode>,
    id: usize,
}
impl BlockMode for RecBm {
    fn obj_id(&self) -> usize {
        self.id
    }
    fn as_any(&self) -> &dyn std::any::Any {
        self.inner.as_any()
    }
    fn clone_from_obj(&mut self, src: &dyn BlockMode) -> bool {
        tick();
        maybe_scrub();
        let r = self.inner.clone_from_obj(src);
        if recording() {
            push(Op { id: self.id, new_id: 0, method: "clone_from".into(), args: vec![src.obj_id().to_string()], inp: vec![], out_pre: vec![], ret: format!("{r}"), out_post: vec![] });
        }
        r
    }
    fn one(&mut self, k: Kind, inp: &[u8], out: &mut [u8]) {
        rec_call!(self, "one", [k.s()], inp, out, self.inner.one(k, inp, out), unit_s)
    }
    fn many(&mut self, k: Kind, inp: &[u8], out: &mut [u8]) -> R {
        rec_call!(self, "many", [k.s()], inp, out, self.inner.many(k, inp, out), rs)
    }
    fn many_closure(&mut self, mode: u8, buf: &mut [u8]) {
        let e: [u8; 0] = [];
        rec_call!(self, "many_closure", [mode], e, buf, self.inner.many_closure(mode, buf), unit_s)
    }
    fn many_script(&mut self, script: &[u8], buf: &mut [u8]) -> usize {
        let e: [u8; 0] = [];
        rec_call!(self, "many_script", [hex(script)], e, buf, self.inner.many_script(script, buf), |n: &usize| n.to_string())
    }
    fn iv_state(&self) -> Vec<u8> {
        tick();
        let v = self.inner.iv_state();
        if recording() {
            push(Op { id: self.id, new_id: 0, method: "iv_state".into(), args: vec![], inp: vec![], out_pre: vec![], ret: hex(&v), out_post: vec![] });
        }
        v
    }
    fn dup(&self) -> Box<dyn BlockMode> {
        tick();
        maybe_scrub();
        let b = self.inner.dup();
        let id = fresh_id();
        if recording() {
            push(Op { id: self.id, new_id: id, method: "dup".into(), args: vec![], inp: vec![], out_pre: vec![], ret: "Ok".into(), out_post: vec![] });
        }
        Box::new(RecBm { inner: b, id })
    }
    fn debug(&self) -> String {
        tick();
        let v = self.inner.debug();
        if recording() {
            push(Op { id: self.id, new_id: 0, method: "debug".into(), args: vec![], inp: vec![], out_pre: vec![], ret: v.clone(), out_post: vec![] });
        }
        v
    }
    fn padded(self: Box<Self>, pad: Pad, k: Kind, inp: &[u8], out: &mut Vec<u8>) -> Result<usize, ()> {
        tick();
        let me = *self;
        let pre = out.clone();
        let r = me.inner.padded(pad, k, inp, out);
        if recording() {
            push(Op {
                id: me.id,
                new_id: 0,
                method: "padded".into(),
                args: vec![pad.s().to_string(), k.s().to_string()],
                inp: inp.to_vec(),
                out_pre: pre,
                ret: match r {
                    Ok(n) => format!("Ok({n})"),
                    Err(()) => "Err".into(),
                },
                out_post: out.clone(),
            });
        }
        r
    }
    fn oneshot(self: Box<Self>, k: Kind, inp: &[u8], out: &mut [u8]) -> Option<R> {
        tick();
        let me = *self;
        let pre = if recording() { out.to_vec() } else { vec![] };
        let r = me.inner.oneshot(k, inp, out);
        if recording() {
            push(Op {
                id: me.id,
                new_id: 0,
                method: "oneshot".into(),
                args: vec![k.s().to_string()],
                inp: inp.to_vec(),
                out_pre: pre,
                ret: match &r {
                    Some(r) => rs(r),
                    None => "None".into(),
                },
                out_post: out.to_vec(),
            });
        }
        r
    }
    fn drop_scan(self: Box<Self>) -> (Vec<u8>, Vec<u8>) {
        tick();
        let me = *self;
        maybe_scrub();
        let r = me.inner.drop_scan();
        if recording() {
            push(Op { id: me.id, new_id: 0, method: "drop_scan".into(), args: vec![], inp: vec![], out_pre: r.1.clone(), ret: hex(&r.0), out_post: vec![] });
        }
        r
    }
}

pub struct RecCore {
    inner: Box<dyn Core>,
    id: usize,
}
impl Core for RecCore {
    fn obj_id(&self) -> usize {
        self.id
    }
    fn as_any(&self) -> &dyn std::any::Any {
        self.inner.as_any()
    }
    fn clone_from_obj(&mut self, src: &dyn Core) -> bool {
        tick();
        maybe_scrub();
        let r = self.inner.clone_from_obj(src);
        if recording() {
            push(Op { id: self.id, new_id: 0, method: "clone_from".into(), args: vec![src.obj_id().to_string()], inp: vec![], out_pre: vec![], ret: format!("{r}"), out_post: vec![] });
        }
        r
    }
    fn remaining_blocks(&self) -> Option<usize> {
        tick();
        let v = self.inner.remaining_blocks();
        if recording() {
            push(Op { id: self.id, new_id: 0, method: "remaining_blocks".into(), args: vec![], inp: vec![], out_pre: vec![], ret: format!("{v:?}"), out_post: vec![] });
        }
        v
    }
    fn apply_blocks(&mut self, k: Kind, inp: &[u8], out: &mut [u8]) -> R {
        rec_call!(self, "apply_blocks", [k.s()], inp, out, self.inner.apply_blocks(k, inp, out), rs)
    }
    fn apply_block(&mut self, k: Kind, inp: &[u8], out: &mut [u8]) {
        rec_call!(self, "apply_block", [k.s()], inp, out, self.inner.apply_block(k, inp, out), unit_s)
    }
    fn write_block(&mut self, out: &mut [u8]) {
        let e: [u8; 0] = [];
        rec_call!(self, "write_block", [], e, out, self.inner.write_block(out), unit_s)
    }
    fn write_blocks(&mut self, out: &mut [u8]) {
        let e: [u8; 0] = [];
        rec_call!(self, "write_blocks", [], e, out, self.inner.write_blocks(out), unit_s)
    }
    fn write_blocks_closure(&mut self, mode: u8, out: &mut [u8]) {
        let e: [u8; 0] = [];
        rec_call!(self, "write_blocks_closure", [mode], e, out, self.inner.write_blocks_closure(mode, out), unit_s)
    }
    fn write_script(&mut self, script: &[u8], out: &mut [u8]) -> usize {
        let e: [u8; 0] = [];
        rec_call!(self, "write_script", [hex(script)], e, out, self.inner.write_script(script, out), |n: &usize| n.to_string())
    }
    fn partial(self: Box<Self>, k: Kind, inp: &[u8], out: &mut [u8]) -> R {
        tick();
        let me = *self;
        let pre = if recording() { out.to_vec() } else { vec![] };
        let r = me.inner.partial(k, inp, out);
        if recording() {
            push(Op { id: me.id, new_id: 0, method: "partial".into(), args: vec![k.s().to_string()], inp: inp.to_vec(), out_pre: pre, ret: rs(&r), out_post: out.to_vec() });
        }
        r
    }
    fn get_block_pos(&self) -> Option<u128> {
        tick();
        let v = self.inner.get_block_pos();
        if recording() {
            push(Op { id: self.id, new_id: 0, method: "get_block_pos".into(), args: vec![], inp: vec![], out_pre: vec![], ret: format!("{v:?}"), out_post: vec![] });
        }
        v
    }
    fn set_block_pos(&mut self, p: u128) -> bool {
        tick();
        let v = self.inner.set_block_pos(p);
        if recording() {
            push(Op { id: self.id, new_id: 0, method: "set_block_pos".into(), args: vec![p.to_string()], inp: vec![], out_pre: vec![], ret: format!("{v}"), out_post: vec![] });
        }
        v
    }
    fn iv_state(&self) -> Vec<u8> {
        tick();
        let v = self.inner.iv_state();
        if recording() {
            push(Op { id: self.id, new_id: 0, method: "iv_state".into(), args: vec![], inp: vec![], out_pre: vec![], ret: hex(&v), out_post: vec![] });
        }
        v
    }
    fn dup(&self) -> Option<Box<dyn Core>> {
        tick();
        maybe_scrub();
        let b = self.inner.dup()?;
        let id = fresh_id();
        if recording() {
            push(Op { id: self.id, new_id: id, method: "dup".into(), args: vec![], inp: vec![], out_pre: vec![], ret: "Ok".into(), out_post: vec![] });
        }
        Some(Box::new(RecCore { inner: b, id }))
    }
    fn debug(&self) -> String {
        tick();
        let v = self.inner.debug();
        if recording() {
            push(Op { id: self.id, new_id: 0, method: "debug".into(), args: vec![], inp: vec![], out_pre: vec![], ret: v.clone(), out_post: vec![] });
        }
        v
    }
    fn into_stream(self: Box<Self>) -> Box<dyn Stream> {
        tick();
        let me = *self;
        let b = me.inner.into_stream();
        let id = fresh_id();
        if recording() {
            push(Op { id: me.id, new_id: id, method: "into_stream".into(), args: vec![], inp: vec![], out_pre: vec![], ret: "Ok".into(), out_post: vec![] });
        }
        Box::new(RecStream { inner: b, id })
    }
    fn drop_scan(self: Box<Self>) -> (Vec<u8>, Vec<u8>) {
        tick();
        let me = *self;
        maybe_scrub();
        let r = me.inner.drop_scan();
        if recording() {
            push(Op { id: me.id, new_id: 0, method: "drop_scan".into(), args: vec![], inp: vec![], out_pre: r.1.clone(), ret: hex(&r.0), out_post: vec![] });
        }
        r
    }
}

pub struct RecStream {
    inner: Box<dyn Stream>,
    id: usize,
}
impl Stream for RecStream {
    fn obj_id(&self) -> usize {
        self.id
    }
    fn as_any(&self) -> &dyn std::any::Any {
        self.inner.as_any()
    }
    fn clone_from_obj(&mut self, src: &dyn Stream) -> bool {
        tick();
        maybe_scrub();
        let r = self.inner.clone_from_obj(src);
        if recording() {
            push(Op { id: self.id, new_id: 0, method: "clone_from".into(), args: vec![src.obj_id().to_string()], inp: vec![], out_pre: vec![], ret: format!("{r}"), out_post: vec![] });
        }
        r
    }
    fn apply(&mut self, k: Kind, inp: &[u8], out: &mut [u8]) -> R {
        rec_call!(self, "apply", [k.s()], inp, out, self.inner.apply(k, inp, out), rs)
    }
    fn seek(&mut self, t: SeekTy, p: u128) -> Option<R> {
        tick();
        let v = self.inner.seek(t, p);
        if recording() {
            push(Op {
                id: self.id,
                new_id: 0,
                method: "seek".into(),
                args: vec![t.s().to_string(), p.to_string()],
                inp: vec![],
                out_pre: vec![],
                ret: match &v {
                    Some(r) => rs(r),
                    None => "None".into(),
                },
                out_post: vec![],
            });
        }
        v
    }
    fn pos(&self, t: SeekTy) -> Option<Result<u128, ()>> {
        tick();
        let v = self.inner.pos(t);
        if recording() {
            push(Op { id: self.id, new_id: 0, method: "pos".into(), args: vec![t.s().to_string()], inp: vec![], out_pre: vec![], ret: format!("{v:?}"), out_post: vec![] });
        }
        v
    }
    fn core_remaining(&self) -> Option<usize> {
        tick();
        let v = self.inner.core_remaining();
        if recording() {
            push(Op { id: self.id, new_id: 0, method: "core_remaining".into(), args: vec![], inp: vec![], out_pre: vec![], ret: format!("{v:?}"), out_post: vec![] });
        }
        v
    }
    fn core_block_pos(&self) -> Option<u128> {
        tick();
        let v = self.inner.core_block_pos();
        if recording() {
            push(Op { id: self.id, new_id: 0, method: "core_block_pos".into(), args: vec![], inp: vec![], out_pre: vec![], ret: format!("{v:?}"), out_post: vec![] });
        }
        v
    }
    fn core_iv_state(&self) -> Vec<u8> {
        tick();
        let v = self.inner.core_iv_state();
        if recording() {
            push(Op { id: self.id, new_id: 0, method: "core_iv_state".into(), args: vec![], inp: vec![], out_pre: vec![], ret: hex(&v), out_post: vec![] });
        }
        v
    }
    fn dup(&self) -> Option<Box<dyn Stream>> {
        tick();
        maybe_scrub();
        let b = self.inner.dup()?;
        let id = fresh_id();
        if recording() {
            push(Op { id: self.id, new_id: id, method: "dup".into(), args: vec![], inp: vec![], out_pre: vec![], ret: "Ok".into(), out_post: vec![] });
        }
        Some(Box::new(RecStream { inner: b, id }))
    }
    fn debug(&self) -> String {
        tick();
        let v = self.inner.debug();
        if recording() {
            push(Op { id: self.id, new_id: 0, method: "debug".into(), args: vec![], inp: vec![], out_pre: vec![], ret: v.clone(), out_post: vec![] });
        }
        v
    }
    fn drop_scan(self: Box<Self>) -> (Vec<u8>, Vec<u8>) {
        tick();
        let me = *self;
        maybe_scrub();
        let r = me.inner.drop_scan();
        if recording() {
            push(Op { id: me.id, new_id: 0, method: "drop_scan".into(), args: vec![], inp: vec![], out_pre: r.1.clone(), ret: hex(&r.0), out_post: vec![] });
        }
        r
    }
}

pub struct RecBuf {
    inner: Box<dyn BufCfb>,
    id: usize,
}
impl BufCfb for RecBuf {
    fn obj_id(&self) -> usize {
        self.id
    }
    fn as_any(&self) -> &dyn std::any::Any {
        self.inner.as_any()
    }
    fn clone_from_obj(&mut self, src: &dyn BufCfb) -> bool {
        tick();
        maybe_scrub();
        let r = self.inner.clone_from_obj(src);
        if recording() {
            push(Op { id: self.id, new_id: 0, method: "clone_from".into(), args: vec![src.obj_id().to_string()], inp: vec![], out_pre: vec![], ret: format!("{r}"), out_post: vec![] });
        }
        r
    }
    fn process(&mut self, data: &mut [u8]) {
        let e: [u8; 0] = [];
        rec_call!(self, "process", [], e, data, self.inner.process(data), unit_s)
    }
    fn get_state(&self) -> (Vec<u8>, usize) {
        tick();
        let v = self.inner.get_state();
        if recording() {
            push(Op { id: self.id, new_id: 0, method: "get_state".into(), args: vec![], inp: vec![], out_pre: vec![], ret: format!("({},{})", hex(&v.0), v.1), out_post: vec![] });
        }
        v
    }
    fn dup(&self) -> Box<dyn BufCfb> {
        tick();
        maybe_scrub();
        let b = self.inner.dup();
        let id = fresh_id();
        if recording() {
            push(Op { id: self.id, new_id: id, method: "dup".into(), args: vec![], inp: vec![], out_pre: vec![], ret: "Ok".into(), out_post: vec![] });
        }
        Box::new(RecBuf { inner: b, id })
    }
    fn debug(&self) -> String {
        tick();
        let v = self.inner.debug();
        if recording() {
            push(Op { id: self.id, new_id: 0, method: "debug".into(), args: vec![], inp: vec![], out_pre: vec![], ret: v.clone(), out_post: vec![] });
        }
        v
    }
    fn drop_scan(self: Box<Self>) -> (Vec<u8>, Vec<u8>) {
        tick();
        let me = *self;
        maybe_scrub();
        let r = me.inner.drop_scan();
        if recording() {
            push(Op { id: me.id, new_id: 0, method: "drop_scan".into(), args: vec![], inp: vec![], out_pre: r.1.clone(), ret: hex(&r.0), out_post: vec![] });
        }
        r
    }
}

// ---------------------------------------------------------------------------------------------
// (de)serialisation and replay

impl Op {
    pub fn to_json(&self) -> J {
        obj(vec![
            ("id", self.id.into()),
            ("new_id", self.new_id.into()),
            ("method", self.method.as_str().into()),
            ("args", J::Arr(self.args.iter().map(|a| a.as_str().into()).collect())),
            ("in", hex(&self.inp).into()),
            ("out_before", hex(&self.out_pre).into()),
            ("ret", self.ret.as_str().into()),
            ("out_after", hex(&self.out_post).into()),
        ])
    }
    pub fn from_json(j: &J) -> Option<Op> {
        Some(Op {
            id: j.get("id")?.as_int()? as usize,
            new_id: j.get("new_id")?.as_int()? as usize,
            method: j.get("method")?.as_str()?.to_string(),
            args: j.get("args")?.as_arr()?.iter().map(|a| a.as_str().map(|s| s.to_string())).collect::<Option<Vec<_>>>()?,
            inp: unhex(j.get("in")?.as_str()?)?,
            out_pre: unhex(j.get("out_before")?.as_str()?)?,
            ret: j.get("ret")?.as_str()?.to_string(),
            out_post: unhex(j.get("out_after")?.as_str()?)?,
        })
    }
    /// one line of API-level pseudo-Rust
    pub fn render(&self) -> String {
        let a = |i: usize| self.args.get(i).cloned().unwrap_or_default();
        match self.method.as_str() {
            m if m.starts_with("new:") => {
                if m == "new:buf_from_state" {
                    format!("let o{} = BufCfb[{}]::<{}>::from_state(C::new(key={}), block={}, pos={})", self.new_id, a(1), a(0), a(3), hex(&self.inp), a(2))
                } else {
                    format!("let o{} = {}[{}]::<{}>::{}(key={}, iv={})  -> {}", self.new_id, &m[4..], a(1), a(0), a(2), a(3), hex(&self.inp), self.ret)
                }
            }
            "cts" => format!(
                "cts::{}::<{}>::{}(key={}, iv={}){}.{}_{}(in={}, out_before={}) -> {} out={}",
                a(1),
                a(0),
                a(2),
                a(3),
                a(4),
                if a(5) == "true" { ".clone()" } else { "" },
                if a(6) == "enc" { "encrypt" } else { "decrypt" },
                a(7),
                hex(&self.inp),
                hex(&self.out_pre),
                self.ret,
                hex(&self.out_post)
            ),
            m => {
                let newp = if self.new_id != 0 { format!("let o{} = ", self.new_id) } else { String::new() };
                format!("{}o{}.{}({}{}{}) -> {}{}", newp, self.id, m, self.args.join(","),
                    if self.inp.is_empty() { String::new() } else { format!(" in={}", hex(&self.inp)) },
                    if self.out_pre.is_empty() { String::new() } else { format!(" out_before={}", hex(&self.out_pre)) },
                    self.ret,
                    if self.out_post.is_empty() { String::new() } else { format!(" out={}", hex(&self.out_post)) })
            }
        }
    }
}

enum Obj {
    Bm(Box<dyn BlockMode>),
    Core(Box<dyn Core>),
    Stream(Box<dyn Stream>),
    Buf(Box<dyn BufCfb>),
    Gone,
}

/// Re-execute a recorded trace on fresh objects.  Returns the re-observed trace (same shape) or an
/// error if the trace cannot be interpreted (machinery problem).
pub fn replay(reg: &Registry, ops: &[Op]) -> Result<Vec<Op>, String> {
    let mut objs: Vec<Obj> = vec![];
    let set = |objs: &mut Vec<Obj>, id: usize, o: Obj| {
        while objs.len() <= id {
            objs.push(Obj::Gone);
        }
        objs[id] = o;
    };
    let mut out_ops = vec![];
    for op in ops {
        let mut o2 = op.clone();
        let a = |i: usize| -> Result<&str, String> { op.args.get(i).map(|s| s.as_str()).ok_or_else(|| format!("missing arg {i} in {}", op.method)) };
        let kind = |i: usize| -> Result<Kind, String> { Kind::parse(a(i)?).ok_or_else(|| "bad kind".to_string()) };
        let mut out = op.out_pre.clone();
        if op.method.starts_with("new:") {
            let cfg = reg.cfgs.iter().find(|c| c.name == a(0).unwrap_or("")).ok_or_else(|| format!("configuration {:?} is not in this binary", a(0)))?;
            if op.method == "new:buf_from_state" {
                let d = cfg.bufcfb.iter().find(|d| d.dir.s() == a(1).unwrap_or("")).ok_or("no such bufcfb")?;
                let key = unhex(a(3)?).ok_or("bad key")?;
                let pos: usize = a(2)?.parse().map_err(|_| "bad pos")?;
                let b = (d.from_state)(&key, &op.inp, pos);
                set(&mut objs, op.new_id, Obj::Buf(b));
                out_ops.push(o2);
                continue;
            }
            let ctor = Ctor::parse(a(2)?).ok_or("bad ctor")?;
            let key = unhex(a(3)?).ok_or("bad key")?;
            let which = a(1)?;
            let made = match &op.method[4..] {
                "bm" => {
                    let d = cfg.block_modes.iter().find(|d| format!("{}-{}", d.mode, d.dir.s()) == which).ok_or("no such block mode")?;
                    (d.make)(ctor, &key, &op.inp).map(Obj::Bm)
                }
                "core" => {
                    let d = cfg.core(which).ok_or("no such core")?;
                    (d.make)(ctor, &key, &op.inp).map(Obj::Core)
                }
                "stream" => {
                    let d = cfg.core(which).ok_or("no such core")?;
                    (d.make_stream)(ctor, &key, &op.inp).map(Obj::Stream)
                }
                "buf" => {
                    let d = cfg.bufcfb.iter().find(|d| d.dir.s() == which).ok_or("no such bufcfb")?;
                    (d.make)(ctor, &key, &op.inp).map(Obj::Buf)
                }
                x => return Err(format!("unknown constructor {x}")),
            };
            match made {
                Ok(o) => {
                    o2.ret = "Ok".into();
                    if op.new_id != 0 {
                        set(&mut objs, op.new_id, o);
                    }
                }
                Err(()) => o2.ret = "Err".into(),
            }
            out_ops.push(o2);
            continue;
        }
        if op.method == "cts" {
            let cfg = reg.cfgs.iter().find(|c| c.name == a(0).unwrap_or("")).ok_or_else(|| format!("configuration {:?} is not in this binary", a(0)))?;
            let d = cfg.cts.iter().find(|d| d.name == a(1).unwrap_or("")).ok_or("no such cts type")?;
            let ctor = Ctor::parse(a(2)?).ok_or("bad ctor")?;
            let key = unhex(a(3)?).ok_or("bad key")?;
            let iv = unhex(a(4)?).ok_or("bad iv")?;
            let clone_first = a(5)? == "true";
            let dir = Dir::parse(a(6)?).ok_or("bad dir")?;
            let k = kind(7)?;
            let r = (d.run)(ctor, clone_first, dir, k, &key, &iv, &op.inp, &mut out);
            o2.ret = match &r {
                Ok(r) => rs(r),
                Err(()) => "CtorErr".into(),
            };
            o2.out_post = out;
            out_ops.push(o2);
            continue;
        }
        if op.method == "clone_from" {
            let src_id: usize = a(0)?.parse().map_err(|_| "bad source id")?;
            if src_id == op.id || src_id >= objs.len() || op.id >= objs.len() {
                return Err("clone_from: bad object ids".into());
            }
            let mut dst = std::mem::replace(&mut objs[op.id], Obj::Gone);
            let ok = match (&mut dst, &objs[src_id]) {
                (Obj::Bm(d), Obj::Bm(s)) => d.clone_from_obj(s.as_ref()),
                (Obj::Core(d), Obj::Core(s)) => d.clone_from_obj(s.as_ref()),
                (Obj::Stream(d), Obj::Stream(s)) => d.clone_from_obj(s.as_ref()),
                (Obj::Buf(d), Obj::Buf(s)) => d.clone_from_obj(s.as_ref()),
                _ => false,
            };
            objs[op.id] = dst;
            o2.ret = format!("{ok}");
            out_ops.push(o2);
            continue;
        }
        let slot = objs.get_mut(op.id).ok_or_else(|| format!("object o{} does not exist", op.id))?;
        let taken = std::mem::replace(slot, Obj::Gone);
        let mut newobj: Option<Obj> = None;
        let back: Obj = match taken {
            Obj::Bm(mut b) => match op.method.as_str() {
                "one" => {
                    b.one(kind(0)?, &op.inp, &mut out);
                    o2.out_post = out;
                    Obj::Bm(b)
                }
                "many" => {
                    o2.ret = rs(&b.many(kind(0)?, &op.inp, &mut out));
                    o2.out_post = out;
                    Obj::Bm(b)
                }
                "many_closure" => {
                    let mode: u8 = a(0)?.parse().map_err(|_| "bad mode")?;
                    b.many_closure(mode, &mut out);
                    o2.out_post = out;
                    Obj::Bm(b)
                }
                "many_script" => {
                    let script = base::json::unhex(a(0)?).ok_or("bad script")?;
                    o2.ret = b.many_script(&script, &mut out).to_string();
                    o2.out_post = out;
                    Obj::Bm(b)
                }
                "iv_state" => {
                    o2.ret = hex(&b.iv_state());
                    Obj::Bm(b)
                }
                "dup" => {
                    newobj = Some(Obj::Bm(b.dup()));
                    Obj::Bm(b)
                }
                "debug" => {
                    o2.ret = b.debug();
                    Obj::Bm(b)
                }
                "padded" => {
                    let pad = Pad::parse(a(0)?).ok_or("bad pad")?;
                    let r = b.padded(pad, kind(1)?, &op.inp, &mut out);
                    o2.ret = match r {
                        Ok(n) => format!("Ok({n})"),
                        Err(()) => "Err".into(),
                    };
                    o2.out_post = out;
                    Obj::Gone
                }
                "oneshot" => {
                    let r = b.oneshot(kind(0)?, &op.inp, &mut out);
                    o2.ret = match &r {
                        Some(r) => rs(r),
                        None => "None".into(),
                    };
                    o2.out_post = out;
                    Obj::Gone
                }
                "drop_scan" => {
                    let r = b.drop_scan();
                    o2.ret = hex(&r.0);
                    o2.out_pre = r.1;
                    Obj::Gone
                }
                m => return Err(format!("unknown block-mode method {m}")),
            },
            Obj::Core(mut c) => match op.method.as_str() {
                "remaining_blocks" => {
                    o2.ret = format!("{:?}", c.remaining_blocks());
                    Obj::Core(c)
                }
                "apply_blocks" => {
                    o2.ret = rs(&c.apply_blocks(kind(0)?, &op.inp, &mut out));
                    o2.out_post = out;
                    Obj::Core(c)
                }
                "apply_block" => {
                    c.apply_block(kind(0)?, &op.inp, &mut out);
                    o2.out_post = out;
                    Obj::Core(c)
                }
                "write_block" => {
                    c.write_block(&mut out);
                    o2.out_post = out;
                    Obj::Core(c)
                }
                "write_blocks" => {
                    c.write_blocks(&mut out);
                    o2.out_post = out;
                    Obj::Core(c)
                }
                "write_blocks_closure" => {
                    let mode: u8 = a(0)?.parse().map_err(|_| "bad mode")?;
                    c.write_blocks_closure(mode, &mut out);
                    o2.out_post = out;
                    Obj::Core(c)
                }
                "write_script" => {
                    let script = base::json::unhex(a(0)?).ok_or("bad script")?;
                    o2.ret = c.write_script(&script, &mut out).to_string();
                    o2.out_post = out;
                    Obj::Core(c)
                }
                "partial" => {
                    o2.ret = rs(&c.partial(kind(0)?, &op.inp, &mut out));
                    o2.out_post = out;
                    Obj::Gone
                }
                "get_block_pos" => {
                    o2.ret = format!("{:?}", c.get_block_pos());
                    Obj::Core(c)
                }
                "set_block_pos" => {
                    let p: u128 = a(0)?.parse().map_err(|_| "bad pos")?;
                    o2.ret = format!("{}", c.set_block_pos(p));
                    Obj::Core(c)
                }
                "iv_state" => {
                    o2.ret = hex(&c.iv_state());
                    Obj::Core(c)
                }
                "dup" => {
                    newobj = c.dup().map(Obj::Core);
                    Obj::Core(c)
                }
                "debug" => {
                    o2.ret = c.debug();
                    Obj::Core(c)
                }
                "into_stream" => {
                    newobj = Some(Obj::Stream(c.into_stream()));
                    Obj::Gone
                }
                "drop_scan" => {
                    let r = c.drop_scan();
                    o2.ret = hex(&r.0);
                    o2.out_pre = r.1;
                    Obj::Gone
                }
                m => return Err(format!("unknown core method {m}")),
            },
            Obj::Stream(mut s) => match op.method.as_str() {
                "apply" => {
                    o2.ret = rs(&s.apply(kind(0)?, &op.inp, &mut out));
                    o2.out_post = out;
                    Obj::Stream(s)
                }
                "seek" => {
                    let t = SeekTy::parse(a(0)?).ok_or("bad seek type")?;
                    let p: u128 = a(1)?.parse().map_err(|_| "bad pos")?;
                    o2.ret = match &s.seek(t, p) {
                        Some(r) => rs(r),
                        None => "None".into(),
                    };
                    Obj::Stream(s)
                }
                "pos" => {
                    let t = SeekTy::parse(a(0)?).ok_or("bad seek type")?;
                    o2.ret = format!("{:?}", s.pos(t));
                    Obj::Stream(s)
                }
                "core_remaining" => {
                    o2.ret = format!("{:?}", s.core_remaining());
                    Obj::Stream(s)
                }
                "core_block_pos" => {
                    o2.ret = format!("{:?}", s.core_block_pos());
                    Obj::Stream(s)
                }
                "core_iv_state" => {
                    o2.ret = hex(&s.core_iv_state());
                    Obj::Stream(s)
                }
                "dup" => {
                    newobj = s.dup().map(Obj::Stream);
                    Obj::Stream(s)
                }
                "debug" => {
                    o2.ret = s.debug();
                    Obj::Stream(s)
                }
                "drop_scan" => {
                    let r = s.drop_scan();
                    o2.ret = hex(&r.0);
                    o2.out_pre = r.1;
                    Obj::Gone
                }
                m => return Err(format!("unknown stream method {m}")),
            },
            Obj::Buf(mut b) => match op.method.as_str() {
                "process" => {
                    b.process(&mut out);
                    o2.out_post = out;
                    Obj::Buf(b)
                }
                "get_state" => {
                    let v = b.get_state();
                    o2.ret = format!("({},{})", hex(&v.0), v.1);
                    Obj::Buf(b)
                }
                "dup" => {
                    newobj = Some(Obj::Buf(b.dup()));
                    Obj::Buf(b)
                }
                "debug" => {
                    o2.ret = b.debug();
                    Obj::Buf(b)
                }
                "drop_scan" => {
                    let r = b.drop_scan();
                    o2.ret = hex(&r.0);
                    o2.out_pre = r.1;
                    Obj::Gone
                }
                m => return Err(format!("unknown bufcfb method {m}")),
            },
            Obj::Gone => return Err(format!("object o{} was already consumed", op.id)),
        };
        objs[op.id] = back;
        if let Some(n) = newobj {
            set(&mut objs, op.new_id, n);
        }
        out_ops.push(o2);
    }
    Ok(out_ops)
}
