//! `mc-*` binaries: bounded exhaustive exploration of the real block-modes code against reference
//! models.  See /verif/DESIGN.md.
pub mod ctx;
pub mod oracle;
pub mod rec;
pub mod util;

pub mod bfs;
pub mod fe;
pub mod inst;
pub mod modes;
pub mod seekm;

pub mod c01;
pub mod c02;
pub mod c03;
pub mod c04;
pub mod c05;
pub mod c06;
pub mod c07;
pub mod c08;
pub mod c09;
pub mod c10;
pub mod c11;
pub mod c12;
pub mod c13;
pub mod c14;
pub mod c15;
pub mod c16;
pub mod c17;

use base::api::Registry;
use base::json::{J, obj};
use ctx::*;
use std::time::Instant;

type CheckFn = fn(&Ctx) -> Outcome;

fn checks() -> Vec<(&'static str, CheckFn)> {
    vec![("C01", c01::run as CheckFn), ("C02", c02::run as CheckFn), ("C03", c03::run as CheckFn), ("C04", c04::run as CheckFn), ("C05", c05::run as CheckFn), ("C06", c06::run as CheckFn), ("C07", c07::run as CheckFn), ("C08", c08::run as CheckFn), ("C09", c09::run as CheckFn), ("C10", c10::run as CheckFn), ("C11", c11::run as CheckFn), ("C12", c12::run as CheckFn), ("C13", c13::run as CheckFn), ("C14", c14::run as CheckFn), ("C15", c15::run as CheckFn), ("C16", c16::run as CheckFn), ("C17", c17::run as CheckFn)]
}

struct Args {
    cmd: String,
    pos: Vec<String>,
    opts: std::collections::BTreeMap<String, String>,
}
fn parse_args() -> Args {
    let mut it = std::env::args().skip(1);
    let cmd = it.next().unwrap_or_else(|| "help".into());
    let mut pos = vec![];
    let mut opts = std::collections::BTreeMap::new();
    while let Some(a) = it.next() {
        if let Some(k) = a.strip_prefix("--") {
            let v = it.next().unwrap_or_default();
            opts.insert(k.to_string(), v);
        } else {
            pos.push(a);
        }
    }
    Args { cmd, pos, opts }
}

/// exit codes: 0 held, 1 violation, 2 machinery problem
pub fn main_with(reg: Registry, bin: &str) -> i32 {
    install_panic_hook();
    let args = parse_args();
    match args.cmd.as_str() {
        "check" => cmd_check(&reg, bin, &args),
        "replay" => cmd_replay(&reg, &args),
        "list" => {
            for c in &reg.cfgs {
                println!("{} bs={} par={} sets={} modes={} cores={}", c.name, c.bs, c.par, c.sets, c.block_modes.len(), c.cores.len());
            }
            0
        }
        "oracle" => match oracle::selftest(&reg) {
            Ok(n) => {
                println!("oracle self-test: {n} vectors / cipher sanity checks passed");
                0
            }
            Err(e) => {
                eprintln!("MACHINERY: oracle self-test failed: {e}");
                2
            }
        },
        _ => {
            eprintln!("usage: {bin} check <ID> --tier quick|thorough [--seed N] [--evidence FILE] [--replays DIR] [--known fp,fp] [--cap SECONDS]\n       {bin} replay <FILE>\n       {bin} list | oracle");
            2
        }
    }
}

fn cmd_check(reg: &Registry, bin: &str, args: &Args) -> i32 {
    let Some(id) = args.pos.first() else {
        eprintln!("MACHINERY: no property id");
        return 2;
    };
    let tier = match args.opts.get("tier").map(|s| s.as_str()).unwrap_or("quick") {
        "quick" => Tier::Quick,
        "thorough" => Tier::Thorough,
        t => {
            eprintln!("MACHINERY: unknown tier {t}");
            return 2;
        }
    };
    let seed: u64 = args.opts.get("seed").and_then(|s| s.parse().ok()).unwrap_or(1);
    let cap_s: f64 = args.opts.get("cap").and_then(|s| s.parse().ok()).unwrap_or(tier.pick(120.0, 3000.0));
    let known: Vec<String> = args.opts.get("known").map(|s| s.split(',').filter(|x| !x.is_empty()).map(|x| x.to_string()).collect()).unwrap_or_default();
    let known_desc: Vec<String> = args.opts.get("known-desc").map(|s| s.split('|').map(|x| x.to_string()).collect()).unwrap_or_default();
    let Some((_, f)) = checks().into_iter().find(|(n, _)| n == id) else {
        eprintln!("MACHINERY: no check for {id}");
        return 2;
    };
    let t0 = Instant::now();
    let oracle_n = match oracle::selftest(reg) {
        Ok(n) => n,
        Err(e) => {
            eprintln!("MACHINERY: oracle self-test failed: {e}");
            return 2;
        }
    };
    let ctx = Ctx { reg, tier, seed, prop: id.clone(), started: t0, cap_s };
    let out = f(&ctx);
    let wall = t0.elapsed().as_secs_f64();

    // classify violations
    let mut new_v = vec![];
    let mut known_v = vec![];
    let mut machinery = out.machinery_errors.clone();
    for v in &out.violations {
        if v.fp == "MACHINERY" {
            machinery.push(format!("{} ({})", v.msg, v.unit));
            continue;
        }
        let full = format!("{id}/{}", v.fp);
        if let Some(i) = known.iter().position(|k| full == *k || full.starts_with(&format!("{k}/"))) {
            known_v.push((full, v, known_desc.get(i).cloned().unwrap_or_default()));
        } else {
            new_v.push((full, v));
        }
    }
    let replay_dir = args.opts.get("replays").cloned().unwrap_or_else(|| "/verif/replays".into());
    let mut lines = vec![];
    // one line per listed finding (a listed fingerprint may cover several flavours)
    {
        let mut groups: std::collections::BTreeMap<usize, (u64, Vec<String>, String)> = Default::default();
        for (full, v, _) in &known_v {
            let i = known.iter().position(|k| full == k || full.starts_with(&format!("{k}/"))).unwrap_or(0);
            let e = groups.entry(i).or_insert((0, vec![], v.unit.clone()));
            e.0 += v.count;
            e.1.push(full[known[i].len()..].trim_start_matches('/').to_string());
        }
        for (i, (count, subs, unit)) in groups {
            let desc = known_desc.get(i).cloned().unwrap_or_default();
            lines.push(format!("KNOWN-FINDING: property={id} {} [{}]: {} ({} occurrences; e.g. {})", known[i], subs.join(","), desc, count, unit));
        }
    }
    let mut replay_paths = vec![];
    for (full, v) in &new_v {
        let _ = std::fs::create_dir_all(&replay_dir);
        let path = format!("{}/{}-{:016x}.json", replay_dir, id, fnv(full.as_bytes()));
        let j = obj(vec![
            ("property", id.as_str().into()),
            ("fingerprint", full.as_str().into()),
            ("message", v.msg.as_str().into()),
            ("unit", v.unit.as_str().into()),
            ("occurrences", v.count.into()),
            ("tier", tier.s().into()),
            ("seed", seed.into()),
            ("binary", bin.into()),
            ("confirmed_deterministic", v.deterministic.into()),
            ("calls", J::Arr(v.trace.iter().map(|o| o.render().into()).collect())),
            ("trace", J::Arr(v.trace.iter().map(|o| o.to_json()).collect())),
        ]);
        if let Err(e) = std::fs::write(&path, j.dump()) {
            machinery.push(format!("cannot write replay file {path}: {e}"));
        }
        replay_paths.push(path.clone());
        lines.push(format!("VIOLATION property={id} replay={path}"));
        lines.push(format!("  fingerprint {full} ({} occurrences; first in {}): {}", v.count, v.unit, v.msg));
    }

    // evidence
    let exhaustive = !out.capped && machinery.is_empty();
    let mut coverage = vec![
        ("states", J::Int((if out.states > 0 { out.states } else { out.cases }) as i128)),
        ("states_meaning", (if out.states > 0 { "distinct canonical states of the merged BFS machines (stateless parts of this check are counted in complete_histories)" } else { "stateless check: one state per distinct complete history" }).into()),
        ("transitions", J::Int(out.transitions as i128)),
        ("traces_validated_against_impl", J::Int(out.cases as i128)),
        ("samples", J::Arr(if out.samples.is_empty() { vec!["(no sample recorded)".into()] } else { out.samples.clone() })),
        ("exhaustive", exhaustive.into()),
        ("rule", out.rule.as_str().into()),
        ("complete_histories", J::Int(out.cases as i128)),
        ("distinct_canonical_states", J::Int(out.states as i128)),
        ("distinct_observed_outcomes", out.distinct_outcomes.into()),
        ("units", out.units.into()),
        ("configurations", J::Arr(out.configs.iter().map(|c| c.as_str().into()).collect())),
        ("bounds", J::Obj(out.bounds.clone())),
        ("counters", J::Obj(out.counters.iter().map(|(k, v)| (k.clone(), J::Int(*v as i128))).collect())),
        ("oracle_selftest_vectors", oracle_n.into()),
        ("known_findings_matched", J::Arr(known_v.iter().map(|(f, _, _)| f.as_str().into()).collect())),
        ("new_violation_fingerprints", J::Arr(new_v.iter().map(|(f, _)| f.as_str().into()).collect())),
        ("notes", J::Arr(out.notes.iter().map(|c| c.as_str().into()).collect())),
        ("capped", out.capped.into()),
        ("binary", bin.into()),
        ("zeroize_build", reg.zeroize.into()),
    ];
    if !machinery.is_empty() {
        coverage.push(("machinery_errors", J::Arr(machinery.iter().map(|c| c.as_str().into()).collect())));
    }
    let ev = obj(vec![
        ("property_id", id.as_str().into()),
        ("tier", tier.s().into()),
        ("seed", seed.into()),
        ("level", "model_checking".into()),
        ("coverage", obj(coverage)),
        ("assumptions", J::Arr(out.assumptions.iter().map(|c| c.as_str().into()).collect())),
        ("wall_s", wall.into()),
        ("violations", new_v.len().into()),
    ]);
    if let Some(p) = args.opts.get("evidence") {
        if let Some(dir) = std::path::Path::new(p).parent() {
            let _ = std::fs::create_dir_all(dir);
        }
        if let Err(e) = std::fs::write(p, ev.dump()) {
            eprintln!("MACHINERY: cannot write evidence {p}: {e}");
            return 2;
        }
    }
    for l in &lines {
        println!("{l}");
    }
    println!(
        "{id} [{}] {bin}: {} histories, {} canonical states, {} transitions, {} units, {} distinct outcomes, {:.1}s, exhaustive={}, known={}, new violations={}",
        tier.s(),
        out.cases,
        out.states,
        out.transitions,
        out.units,
        out.distinct_outcomes,
        wall,
        exhaustive,
        known_v.len(),
        new_v.len()
    );
    if !machinery.is_empty() {
        for m in &machinery {
            eprintln!("MACHINERY: {m}");
        }
        return 2;
    }
    if new_v.is_empty() { 0 } else { 1 }
}

fn cmd_replay(reg: &Registry, args: &Args) -> i32 {
    let Some(path) = args.pos.first() else {
        eprintln!("MACHINERY: replay needs a file");
        return 2;
    };
    let text = match std::fs::read_to_string(path) {
        Ok(t) => t,
        Err(e) => {
            eprintln!("MACHINERY: cannot read {path}: {e}");
            return 2;
        }
    };
    let j = match J::parse(&text) {
        Ok(j) => j,
        Err(e) => {
            eprintln!("MACHINERY: cannot parse {path}: {e}");
            return 2;
        }
    };
    let ops: Option<Vec<rec::Op>> = j.get("trace").and_then(|t| t.as_arr()).map(|a| a.iter().filter_map(rec::Op::from_json).collect());
    let Some(ops) = ops else {
        eprintln!("MACHINERY: no trace in {path}");
        return 2;
    };
    let prop = j.get("property").and_then(|p| p.as_str()).unwrap_or("?").to_string();
    println!("replaying {} ({} calls): {}", j.get("fingerprint").and_then(|p| p.as_str()).unwrap_or("?"), ops.len(), j.get("message").and_then(|p| p.as_str()).unwrap_or(""));
    let res = std::panic::catch_unwind(std::panic::AssertUnwindSafe(|| rec::replay(reg, &ops)));
    match res {
        Err(_) => {
            println!("replay panicked: {}", last_panic());
            // a panic of the subject during the recorded calls: the recorded violation was a panic if the trace is shorter
            println!("VIOLATION property={prop} replay={path}");
            1
        }
        Ok(Err(e)) => {
            eprintln!("MACHINERY: {e}");
            2
        }
        Ok(Ok(now)) => {
            let mut same = true;
            for (a, b) in ops.iter().zip(&now) {
                let mark = if a == b { "  " } else { "!=" };
                println!("{mark} {}", b.render());
                if a != b {
                    println!("   recorded: {}", a.render());
                    same = false;
                }
            }
            if same {
                println!("all {} calls reproduce the recorded (violating) observations", ops.len());
                println!("VIOLATION property={prop} replay={path}");
                1
            } else {
                println!("the recorded observations no longer reproduce on the current tree");
                0
            }
        }
    }
}
