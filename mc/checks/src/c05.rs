//! C05 — ciphertext stealing follows NIST SP 800-38A Addendum CS1/CS2/CS3 (CBC and ECB).
//!
//! Stateless exhaustive: {CBC,ECB}x{CS1,CS2,CS3} x cfg x key x IV x data x length x call form.
use crate::ctx::*;
use crate::ensure;
use crate::rec;
use crate::util::*;
use base::api::*;
use base::json::J;
use base::refmodel as rf;

/// lengths explored for a configuration: every length up to a few blocks, then the boundary
/// residues {0, 1, bs/2, bs-1} for every block count up to `nmax`, and all residues again around the
/// parallel-width boundaries.
pub fn cts_lengths(bs: usize, par: usize, tier: Tier) -> Vec<usize> {
    let nmax = tier.pick((2 * par + 2).max(10), (2 * par + 3).max(18));
    let mut v = std::collections::BTreeSet::new();
    let dense_blocks: Vec<usize> = if bs <= 8 { (1..=nmax).collect() } else { vec![1, 2, 3, par, par + 1, par + 2, 2 * par + 1, 8, 9, nmax] };
    for n in 1..=nmax {
        let residues: Vec<usize> = if dense_blocks.contains(&n) { (0..bs).collect() } else { vec![0, 1, bs / 2, bs - 1] };
        for r in residues {
            if r < bs {
                v.insert(n * bs + r);
            }
        }
    }
    if bs <= 16 {
        // long messages: past 16, 32, 64 and 256 blocks, boundary residues
        for n in [17usize, 33, 65, 257] {
            for r in [0, 1, bs / 2, bs - 1] {
                v.insert(n * bs + r);
            }
        }
    }
    v.into_iter().collect()
}

pub fn shape(bs: usize, l: usize) -> &'static str {
    if l == bs {
        "one_block"
    } else if l % bs == 0 {
        "whole_blocks"
    } else if l < 2 * bs {
        "one_block_and_tail"
    } else {
        "blocks_and_tail"
    }
}

pub fn run(ctx: &Ctx) -> Outcome {
    let cfgs = ctx.cfgs_with_sweep();
    let units: Vec<(&Cfg, &CtsDesc)> = cfgs.iter().flat_map(|c| c.cts.iter().map(move |d| (*c, d))).collect();
    let tier = ctx.tier;
    let seed = ctx.seed;
    let reports = par_map(&units, |(cfg, d)| {
        let mut rep = Report::new(format!("{}/{}", cfg.name, d.name));
        let bs = cfg.bs;
        let par = par_of(cfg);
        let sweep = cfg.sets.contains('s');
        let lens = if sweep { let mut v: Vec<usize> = (bs..=2 * bs + 1).collect(); v.extend([3 * bs - 1, 3 * bs, 3 * bs + 1, 5 * bs, 7 * bs + bs / 2]); v.sort(); v.dedup(); if bs > 32 { v.retain(|l| { let r = l % bs; r <= 1 || r >= bs - 1 || r == bs / 2 }); } v } else { cts_lengths(bs, par, tier) };
        let lmax = *lens.last().unwrap();
        let keys = keys(seed, cfg.key_len);
        let nkeys = if sweep { 1 } else { tier.pick(1, 2) };
        for key in keys.iter().take(nkeys) {
            let c = rf::Ciph::new(cfg, key);
            for (ivn, iv) in iv_variants(seed, bs).into_iter().skip(if sweep && d.cbc { 2 } else { 0 }) {
                let ivo: Option<&[u8]> = if d.cbc { Some(&iv) } else { None };
                if !d.cbc && ivn != "zero" {
                    continue; // ECB variants take no IV
                }
                for (dn, data) in data_variants(seed, 0xC05, lmax).into_iter().skip(if sweep { 2 } else { light(cfg, tier) }) {
                    for &l in &lens {
                        let m = &data[..l];
                        let want_enc = rf::cts_enc(&c, ivo, d.variant, m);
                        let want_dec_arb = rf::cts_dec(&c, ivo, d.variant, m);
                        rep.outcome(&want_enc);
                        for k in KINDS {
                            // enc == reference
                            rep.case(|| {
                                let mut out = if k.in_place() { m.to_vec() } else { dirty(l) };
                                let r = rec::cts(cfg, d, Ctor::Inner, false, Dir::Enc, k, key, &iv, m, &mut out).expect("harness: ctor");
                                ensure!(r.is_ok(), format!("enc_refused/{}/{}", d.name, shape(bs, l)), "{} encrypt({}) of {} bytes returned Err", d.ty, k.s(), l);
                                ensure!(out.len() == l, format!("enc_len/{}", d.name), "length changed");
                                ensure!(out == want_enc, format!("enc_mismatch/{}/{}", d.name, shape(bs, l)), "{} encrypt({}) L={} iv={} data={}: got {} want {} (first diff at byte {:?})", d.ty, k.s(), l, ivn, dn, short(&out), short(&want_enc), first_diff(&out, &want_enc));
                                Ok(())
                            });
                            // dec(reference ciphertext) == m
                            rep.case(|| {
                                let mut out = if k.in_place() { want_enc.clone() } else { dirty(l) };
                                let r = rec::cts(cfg, d, Ctor::Inner, false, Dir::Dec, k, key, &iv, &want_enc, &mut out).expect("harness: ctor");
                                ensure!(r.is_ok(), format!("dec_refused/{}/{}", d.name, shape(bs, l)), "{} decrypt({}) of {} bytes returned Err", d.ty, k.s(), l);
                                ensure!(out == m, format!("dec_mismatch/{}/{}", d.name, shape(bs, l)), "{} decrypt({}) of the reference ciphertext, L={} iv={} data={}: got {} want {}", d.ty, k.s(), l, ivn, dn, short(&out), short(m));
                                Ok(())
                            });
                            // dec(arbitrary bytes) == reference decryption
                            rep.case(|| {
                                let mut out = if k.in_place() { m.to_vec() } else { dirty(l) };
                                let r = rec::cts(cfg, d, Ctor::Inner, false, Dir::Dec, k, key, &iv, m, &mut out).expect("harness: ctor");
                                ensure!(r.is_ok(), format!("dec_refused/{}/{}", d.name, shape(bs, l)), "{} decrypt({}) of {} bytes returned Err", d.ty, k.s(), l);
                                ensure!(out == want_dec_arb, format!("dec_arbitrary_mismatch/{}/{}", d.name, shape(bs, l)), "{} decrypt({}) of arbitrary ciphertext, L={} iv={} data={}: got {} want {}", d.ty, k.s(), l, ivn, dn, short(&out), short(&want_dec_arb));
                                Ok(())
                            });
                        }
                        if l == bs + 1 && dn == "pat" && ivn != "ff" {
                            rep.sample(case_json(vec![("type", d.ty.as_str().into()), ("len", l.into()), ("iv", hx(&iv)), ("msg", hx(m)), ("expected_ciphertext", hx(&want_enc))]));
                        }
                    }
                }
            }
        }
        rep.count("lengths_per_unit", lens.len() as u64);
        rep.finish()
    });
    let mut o = merge(reports);
    o.rule = "stateless exhaustive: every (CTS type, configuration, key, IV, data pattern, length in the length set, call form) x {enc vs reference, dec of reference ciphertext, dec of arbitrary bytes vs reference}; a state is one complete history".into();
    o.configs = cfgs.iter().map(|c| c.name.clone()).collect();
    o.bounds = vec![("all_sizes_sweep".into(), J::Str(if tier == Tier::Thorough && cfgs.iter().any(|c| c.sets.contains('s')) { "every block size 1..=255 (parallel width 2) with reduced length bounds".into() } else { "not in this tier".to_string() })), 
        ("max_blocks".into(), J::Str(tier.pick("2*PAR+2", "2*PAR+3").into())),
        ("lengths".into(), J::Str("all residues for block counts {1,2,3,PAR,PAR+1,PAR+2,2PAR+1,max} (all block counts when bs<=8); residues {0,1,bs/2,bs-1} otherwise".into())),
        ("keys".into(), J::Int(tier.pick(1, 2))),
        ("ivs".into(), J::Int(3)),
        ("data_patterns".into(), J::Int(3)),
        ("call_forms".into(), J::Int(3)),
    ];
    o.assumptions = vec![
        "reference model written from SP 800-38A Addendum; validated against RFC 3962 and STB 34.101.31 vectors at start-up".into(),
        "control flow of the subject does not depend on data bytes (three data patterns per shape)".into(),
    ];
    o
}
