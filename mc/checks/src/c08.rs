//! C08 — byte-stream interfaces give the same bytes however the stream is cut into calls; one-shot
//! CFB and CFB-8 are prefix-preserving.
use crate::bfs::{self, Machine};
use crate::ctx::*;
use crate::ensure;
use crate::fe::*;
use crate::rec;
use crate::util::*;
use base::api::*;
use base::json::J;
use base::refmodel as rf;

/// byte-granular, stateful front-ends: the byte-level stream ciphers and the buffered CFB types
pub fn byte_frontends<'a>(cfg: &'a Cfg) -> Vec<(String, Dir, Fe<'a>)> {
    let mut v = vec![];
    for d in &cfg.cores {
        v.push((d.mode.to_string(), Dir::Enc, fe_stream(cfg, d)));
    }
    for d in &cfg.bufcfb {
        v.push(("cfb".to_string(), d.dir, fe_buf(cfg, d)));
    }
    v
}

/// all compositions of l into positive parts, each also with one zero-length piece inserted at every gap
fn compositions_with_zeros(l: usize) -> Vec<Vec<usize>> {
    let mut out = vec![];
    for c in compositions(l) {
        out.push(c.clone());
        for gap in 0..=c.len() {
            let mut z = c.clone();
            z.insert(gap, 0);
            out.push(z);
        }
    }
    out
}

struct ChunkMachine<'a> {
    fe: &'a Fe<'a>,
    key: &'a [u8],
    iv: &'a [u8],
    data: &'a [u8],
    pre: &'a [u8],
    want: &'a [u8],
    lens: Vec<usize>,
    bs: usize,
}
impl Machine for ChunkMachine<'_> {
    type Act = P;
    fn actions(&self, hist: &[P]) -> Vec<P> {
        let used: usize = hist.iter().map(|p| p.len).sum();
        // two consecutive empty pieces add nothing new
        let last_zero = hist.last().map(|p| p.len == 0).unwrap_or(false);
        let mut v = vec![];
        for &l in &self.lens {
            if used + l > self.data.len() || (l == 0 && last_zero) {
                continue;
            }
            for &kind in &self.fe.kinds {
                v.push(p(l, kind));
            }
        }
        v
    }
    fn run(&self, hist: &[P]) -> Result<Option<Vec<u8>>, Fail> {
        let used: usize = hist.iter().map(|p| p.len).sum();
        // probe: one further call of a block and a half (as far as the data reaches)
        let probe = (self.bs + self.bs / 2 + 1).min(self.data.len() - used);
        let mut pieces = hist.to_vec();
        pieces.push(p(probe, self.fe.kinds[0]));
        let total = used + probe;
        let got = (self.fe.run)(self.key, self.iv, &self.data[..total], &pieces, self.pre)?;
        ensure!(got.out == self.want[..total], format!("output/{}", self.fe.name), "{} pieces [{}]: {} differs from the single-call / reference result {} (first diff at byte {:?})", self.fe.ty, ps(&pieces), short(&got.out), short(&self.want[..total]), first_diff(&got.out, &self.want[..total]));
        let mut key = (used as u64).to_le_bytes().to_vec();
        key.extend(&got.out[used..]);
        Ok(Some(key))
    }
    fn confluence_class(&self, key: &[u8]) -> Option<Vec<u8>> {
        Some(key[..8].to_vec())
    }
}

pub fn run(ctx: &Ctx) -> Outcome {
    let cfgs = ctx.cfgs();
    let tier = ctx.tier;
    let seed = ctx.seed;
    // one unit per (configuration, front-end), plus one per configuration for the prefix clause
    let units: Vec<(&Cfg, Option<usize>)> = cfgs.iter().flat_map(|c| (0..byte_frontends(c).len()).map(move |i| (*c, Some(i))).chain(std::iter::once((*c, None)))).collect();
    let reports = par_map(&units, |(cfg, which)| {
        let cfg: &Cfg = cfg;
        let mut rep = Report::new(format!("{}/byte-streams/{}", cfg.name, which.map(|i| i.to_string()).unwrap_or_else(|| "prefix".into())));
        let bs = cfg.bs;
        let key = &keys(seed, cfg.key_len)[0];
        let lbfs = 3 * bs + 2;
        // long input: a single piece can exceed twice the parallel width and fixed thresholds of 8 / 16 blocks
        // (bs <= 16: also pieces past 128, 256 and -- thorough -- 1024 blocks, i.e. past 4 KiB / 16 KiB)
        let vlong: Vec<usize> = if bs <= 16 { tier.pick(vec![66, 130, 258], vec![66, 130, 258, 1026]) } else { vec![] };
        let llong = (long_blocks(par_of(cfg)) * bs + bs / 2 + 1).max(vlong.last().map(|n| n * bs + 1).unwrap_or(0));
        let llong_sched = long_blocks(par_of(cfg)) * bs + bs / 2 + 1;
        let pre = dirty(llong + 2 * bs + 2);
        for (fam, dir, fe) in byte_frontends(cfg).into_iter().enumerate().filter(|(i, _)| Some(*i) == *which).map(|(_, f)| f) {
            let iv_skip = if fam.starts_with("ctr") || fam == "belt" { 1 } else { tier.pick(2, 1) };
            for (ivn, iv) in iv_variants(seed, bs).into_iter().skip(iv_skip) {
                for (dn, data) in data_variants(seed, 0xC08, llong + 2 * bs + 2).into_iter().skip(tier.pick(2, 1)) {
                    let want = family_ref(cfg, &fam, dir, key, &iv, &data).0;
                    // (1) all compositions (with empty pieces) of short strings that straddle block boundaries
                    let lcomp = if bs <= 5 { tier.pick(8, 11) } else if bs <= 8 { tier.pick(bs + 2, bs + 4) } else if bs <= 16 { tier.pick(0, bs + 2) } else { 0 };
                    for l in 0..=lcomp {
                        let comps = if l <= 11 { compositions_with_zeros(l) } else { compositions(l) };
                        for comp in comps {
                            // call forms: all in place; alternating in place / b2b
                            for alt in 0..fe.kinds.len().min(2) {
                                let pieces: Vec<P> = comp.iter().enumerate().map(|(i, &n)| p(n, if alt == 1 && i % 2 == 0 { Kind::B2b } else { Kind::InPlace })).collect();
                                rep.case(|| {
                                    let got = (fe.run)(key, &iv, &data[..l], &pieces, &pre)?;
                                    ensure!(got.out == want[..l], format!("output/{}", fe.name), "{} L={} iv={} data={} pieces [{}]: {} differs from the single-call / reference result {} (first diff at byte {:?})", fe.ty, l, ivn, dn, ps(&pieces), short(&got.out), short(&want[..l]), first_diff(&got.out, &want[..l]));
                                    Ok(())
                                });
                            }
                        }
                    }
                    // (2) <= k split deviations from "one call" on L = 3*bs+2
                    let l = lbfs;
                    let k = if l <= 64 { tier.pick(2, 3) } else { 2 };
                    let pts: Vec<usize> = if l <= 200 || tier == Tier::Thorough && l <= 400 { (1..l).collect() } else { split_points(bs, l, 1) };
                    let mut cut_sets: Vec<Vec<usize>> = vec![vec![]];
                    for (i, &a) in pts.iter().enumerate() {
                        cut_sets.push(vec![a]);
                        for (j, &b) in pts.iter().enumerate().skip(i + 1) {
                            cut_sets.push(vec![a, b]);
                            if k >= 3 {
                                for &c in pts.iter().skip(j + 1) {
                                    cut_sets.push(vec![a, b, c]);
                                }
                            }
                        }
                    }
                    rep.outcome(&want[..l]);
                    for cuts in &cut_sets {
                        let mut pieces = vec![];
                        let mut prev = 0;
                        for &c in cuts.iter().chain(std::iter::once(&l)) {
                            pieces.push(p(c - prev, Kind::InPlace));
                            prev = c;
                        }
                        rep.case(|| {
                            let got = (fe.run)(key, &iv, &data[..l], &pieces, &pre)?;
                            ensure!(got.out == want[..l], format!("output/{}", fe.name), "{} L={} with {} split deviation(s), pieces [{}]: {} differs from the single-call / reference result {} (first diff at byte {:?})", fe.ty, l, cuts.len(), ps(&pieces), short(&got.out), short(&want[..l]), first_diff(&got.out, &want[..l]));
                            Ok(())
                        });
                    }
                    rep.count("deviation_schedules", cut_sets.len() as u64);
                    // (2b) the same on a LONG input with cuts restricted to block-boundary neighbourhoods: a short
                    // piece, a long piece that completes a block and carries many whole blocks, and the rest
                    {
                        let l = llong_sched;
                        let pts = boundary_points(bs, l);
                        let mut n_sched = 0u64;
                        for (i, &a) in pts.iter().enumerate() {
                            for &b in std::iter::once(&l).chain(pts.iter().skip(i + 1)) {
                                // keep the schedule count bounded for large blocks: first cut within the first two blocks
                                if a > 2 * bs + 1 && bs > 8 {
                                    continue;
                                }
                                let pieces: Vec<P> = if b == l { vec![p(a, Kind::InPlace), p(l - a, Kind::InPlace)] } else { vec![p(a, Kind::InPlace), p(b - a, Kind::InPlace), p(l - b, Kind::InPlace)] };
                                n_sched += 1;
                                rep.case(|| {
                                    let got = (fe.run)(key, &iv, &data[..l], &pieces, &pre)?;
                                    ensure!(got.out == want[..l], format!("output/{}", fe.name), "{} L={} pieces [{}]: {} differs from the single-call / reference result {} (first diff at byte {:?})", fe.ty, l, ps(&pieces), short(&got.out), short(&want[..l]), first_diff(&got.out, &want[..l]));
                                    Ok(())
                                });
                            }
                        }
                        rep.count("long_input_schedules", n_sched);
                    }
                    // (2c) very long pieces (past 32, 64, 128, 256 blocks) for small blocks: [a, long, c]
                    for &nb in &vlong {
                        let l = nb * bs + 1;
                        if l <= data.len() {
                            for a in [0usize, 1, bs / 2, bs - 1] {
                                for c in [0usize, 1, bs - 1, 32 * bs + 1] {
                                    let pieces = vec![p(a, Kind::InPlace), p(l - a - c, Kind::InPlace), p(c, Kind::InPlace)];
                                    rep.case(|| {
                                        let got = (fe.run)(key, &iv, &data[..l], &pieces, &pre)?;
                                        ensure!(got.out == want[..l], format!("output/{}", fe.name), "{} L={} pieces [{}]: {} differs from the single-call / reference result {} (first diff at byte {:?})", fe.ty, l, ps(&pieces), short(&got.out), short(&want[..l]), first_diff(&got.out, &want[..l]));
                                        Ok(())
                                    });
                                }
                            }
                        }
                    }
                    // (3) merged BFS over piece lengths
                    let lens: Vec<usize> = if bs <= 4 { (0..=2 * bs + 1).collect() } else if bs <= 32 { vec![0, 1, 2, bs - 1, bs, bs + 1, 2 * bs - 1, 2 * bs, 2 * bs + 1] } else { vec![0, bs - 1, bs, bs + 1, 2 * bs - 1, 2 * bs, 2 * bs + 1] };
                    let expect_states = reachable_offsets(&lens, lbfs) as u64;
                    let m = ChunkMachine { fe: &fe, key, iv: &iv, data: &data[..lbfs], pre: &pre, want: &want, lens, bs };
                    let st = bfs::bfs(&m, &mut rep, 2 * lbfs + 2, 200_000, &|| false);
                    if rep.violations.is_empty() && st.states != expect_states {
                        rep.machinery_errors.push(format!("explorer completeness cross-check failed for {} {}: {} canonical states, {} reachable offsets", cfg.name, fe.name, st.states, expect_states));
                    }
                    rep.count("model_states_cross_checked", expect_states);
                    rep.count("bfs_states", st.states);
                    rep.count("bfs_transitions", st.transitions);
                    rep.count("bfs_dedup_hits", st.dedup_hits);
                }
            }
            if rep.samples.is_empty() {
                rep.sample(case_json(vec![("front_end", fe.name.as_str().into()), ("type", fe.ty.as_str().into()), ("bfs_input_bytes", lbfs.into()), ("example_pieces", ps(&[p(0, Kind::InPlace), p(bs + 1, Kind::B2b), p(0, Kind::InPlace), p(bs - 1, Kind::InPlace)]).into())]));
            }
        }
        // (4) one-shot CFB and CFB-8 are prefix-preserving, for two different continuations
        for mode in if which.is_none() { vec!["cfb", "cfb8"] } else { vec![] } {
            for dir in [Dir::Enc, Dir::Dec] {
                let d = cfg.block_mode(mode, dir).unwrap();
                let fe = fe_oneshot(cfg, d);
                let iv = pattern(seed, 0x1717, bs);
                let lmax = tier.pick(3 * bs + 2, 4 * bs + 3);
                let a = pattern(seed, 0xC08A, lmax);
                let lens = byte_lengths(bs, lmax);
                for &l in &lens {
                    let below: Vec<usize> = lens.iter().copied().filter(|&lp| lp < l).collect();
                    // large blocks: the three shortest and the two longest proper prefixes of each length
                    let below: Vec<usize> = if bs > 32 && below.len() > 5 { below[..3].iter().chain(&below[below.len() - 2..]).copied().collect() } else { below };
                    for &lp in &below {
                        // second message: same prefix, different continuation
                        let mut b = a[..l].to_vec();
                        for x in b[lp..].iter_mut() {
                            *x = !*x;
                        }
                        for k in KINDS {
                            rep.case(|| {
                                let short_out = (fe.run)(key, &iv, &a[..lp], &[p(lp, k)], &pre)?.out;
                                let oa = (fe.run)(key, &iv, &a[..l], &[p(l, k)], &pre)?.out;
                                let ob = (fe.run)(key, &iv, &b, &[p(l, k)], &pre)?.out;
                                ensure!(oa[..lp] == short_out[..] && ob[..lp] == short_out[..], format!("prefix_not_preserved/{}-{}", mode, dir.s()), "{} one-shot ({}): output for the {}-byte message is {} but the same-length prefixes of the outputs of two {}-byte extensions are {} / {}", d.ty, k.s(), lp, short(&short_out), l, short(&oa[..lp]), short(&ob[..lp]));
                                Ok(())
                            });
                        }
                    }
                }
            }
        }
        rep.finish()
    });
    // ---- chunking from a position reached by a seek (far positions included): byte-level seekable ciphers ----
    let seek_units: Vec<(&Cfg, &CoreDesc)> = cfgs.iter().flat_map(|c| c.cores.iter().filter(|d| d.seekable).map(move |d| (*c, d))).collect();
    let rseek = par_map(&seek_units, |(cfg, d)| {
        let mut rep = Report::new(format!("{}/{}/after-seek", cfg.name, d.mode));
        let bs = cfg.bs;
        let key = &keys(seed, cfg.key_len)[0];
        let c = rf::Ciph::new(cfg, key);
        let iv = pattern(seed, 0x1717, bs);
        let l = if bs <= 16 { 3 * bs + 2 } else { 2 * bs + 2 };
        let data = pattern(seed, 0xC08E, l);
        let limit = rf::ctr_limit_blocks(d.w);
        // start positions (block, byte): near the start, past 2^32 and past 2^64 blocks where the counter reaches
        let mut starts: Vec<(u128, usize)> = vec![(7, 3 % bs), (1, 0)];
        for b in [(1u128 << 32) + 1, (1u128 << 64) + 2] {
            if b + 8 < limit && b.checked_mul(bs as u128).is_some() {
                starts.push((b, (bs / 2).max(1) % bs));
            }
        }
        let cutpts = boundary_points(bs, l);
        for (blk, byte) in starts {
            let pos = blk * bs as u128 + byte as u128;
            let ks = if d.mode == "belt" { rf::belt_ks(&c, &iv, blk, byte, l) } else { rf::ctr_ks(&c, &iv, d.w, d.be, blk, byte, l) };
            let want = rf::x(&data, &ks);
            // all schedules with <= 2 cuts at block-boundary neighbourhoods, alternating call forms; plus a seek back into the
            // current block between two pieces (the bytes must not change)
            let mut cutsets: Vec<Vec<usize>> = vec![vec![]];
            for (i, &a) in cutpts.iter().enumerate() {
                cutsets.push(vec![a]);
                for &b in &cutpts[i + 1..] {
                    cutsets.push(vec![a, b]);
                }
            }
            for cuts in &cutsets {
                for reseek in [false, true] {
                    if reseek && cuts.is_empty() {
                        continue;
                    }
                    rep.case(|| {
                        let mut st = crate::rec::stream(cfg, d, key, &iv);
                        ensure!(st.seek(SeekTy::U128, pos) == Some(Ok(())), format!("seek_refused/{}", d.mode), "{}: seek to byte {} refused", d.ty, pos);
                        let mut out = vec![];
                        let mut prev = 0;
                        for (i, &cpt) in cuts.iter().chain(std::iter::once(&l)).enumerate() {
                            if reseek && i == 1 {
                                // seek to where we already are (a position inside / at the edge of the block just consumed)
                                ensure!(st.seek(SeekTy::U128, pos + prev as u128) == Some(Ok(())), format!("seek_refused/{}", d.mode), "{}: seek to the current position refused", d.ty);
                            }
                            let mut o = data[prev..cpt].to_vec();
                            let kind = [Kind::InPlace, Kind::B2b, Kind::Alias][i % 3];
                            let inp = o.clone();
                            ensure!(st.apply(kind, &inp, &mut o).is_ok(), format!("request_refused/{}", d.mode), "{}: request refused far from the limit", d.ty);
                            out.extend(o);
                            prev = cpt;
                        }
                        ensure!(out == want, format!("output/{}/stream-after-seek", d.mode), "{} after seek to block {} byte {}: pieces cut at {:?}{}: {} differs from the reference keystream applied in one piece {} (first diff at byte {:?})", d.ty, blk, byte, cuts, if reseek { " with a seek to the current position before the second piece" } else { "" }, short(&out), short(&want), first_diff(&out, &want));
                        Ok(())
                    });
                }
            }
        }
        // the last blocks of the keystream (flavours whose end is reachable by a byte seek): a string that ends exactly at the
        // limit, in one call and cut at block-boundary neighbourhoods -- every cutting must succeed and give the same bytes
        if let Some(endb) = limit.checked_mul(bs as u128) {
            let par = par_of(cfg);
            let mut ns = vec![1usize, par, par + 1, 2 * par, 2 * par + 1];
            ns.sort();
            ns.dedup();
            for n in ns {
                let lz = n * bs;
                let dz = pattern(seed, 0xC08F, lz);
                let blk = limit - n as u128;
                let ks = if d.mode == "belt" { rf::belt_ks(&c, &iv, blk, 0, lz) } else { rf::ctr_ks(&c, &iv, d.w, d.be, blk, 0, lz) };
                let want = rf::x(&dz, &ks);
                let pts = boundary_points(bs, lz);
                let mut cutsets: Vec<Vec<usize>> = vec![vec![]];
                for (i, &a) in pts.iter().enumerate() {
                    cutsets.push(vec![a]);
                    if n <= par + 1 {
                        for &b in &pts[i + 1..] {
                            cutsets.push(vec![a, b]);
                        }
                    }
                }
                for cuts in &cutsets {
                    rep.case(|| {
                        let mut st = crate::rec::stream(cfg, d, key, &iv);
                        ensure!(st.seek(SeekTy::U128, endb - lz as u128) == Some(Ok(())), format!("seek_refused/{}", d.mode), "{}: seek to {} blocks before the end refused", d.ty, n);
                        let mut out = vec![];
                        let mut prev = 0;
                        for (i, &cpt) in cuts.iter().chain(std::iter::once(&lz)).enumerate() {
                            let mut o = dz[prev..cpt].to_vec();
                            let kind = [Kind::InPlace, Kind::B2b, Kind::Alias][i % 3];
                            let inp = o.clone();
                            ensure!(st.apply(kind, &inp, &mut o).is_ok(), format!("request_refused/{}/at-the-end", d.mode), "{}: a request ending exactly at the keystream limit was refused ({} blocks before the end, pieces cut at {:?}, piece {})", d.ty, n, cuts, i);
                            out.extend(o);
                            prev = cpt;
                        }
                        ensure!(out == want, format!("output/{}/stream-at-the-end", d.mode), "{}: the last {} blocks of the keystream, pieces cut at {:?}: {} differs from the reference {} (first diff at byte {:?})", d.ty, n, cuts, short(&out), short(&want), first_diff(&out, &want));
                        Ok(())
                    });
                }
            }
        }
        rep.finish()
    });
    let mut o = merge(reports);
    extend(&mut o, merge(rseek));
    o.rule = "per byte-level stream cipher (six CTR aliases, Ofb, BeltCtr) and buffered CFB encryptor/decryptor: (1) stateless: ALL compositions of short strings into pieces, additionally with an empty piece inserted at every gap, all in place and alternating in place / b2b; (2) deviation-bounded: every set of <= k cut points on a 3*bs+2 byte string; (3) merged BFS over piece lengths (0..2bs+1 for small blocks, the boundary set otherwise) x call form, singleton canonical state per offset (key = bytes consumed + output of a 1.5-block probe); (4) one-shot CFB / CFB-8: for every pair L' < L, out(m[..L']) equals the L'-prefix of out(m) for two different continuations. Oracle: the single-call result = reference keystream / recurrence".into();
    o.configs = cfgs.iter().map(|c| c.name.clone()).collect();
    o.bounds = vec![("composition_len".into(), J::Str(tier.pick("8 (bs<=5), bs+2 (bs<=8)", "11 (bs<=5), bs+4 (bs<=8), bs+2 (bs<=16)").into())), ("deviation_len".into(), J::Str("3*bs+2".into())), ("max_split_deviations".into(), J::Str(tier.pick("2", "3 when L<=64 else 2").into())), ("bfs_len".into(), J::Str("3*bs+2".into()))];
    o
}
