//! Small enumeration helpers shared by the checks.
use base::api::*;
use base::json::{J, hex, obj};

/// all compositions of `n` into positive parts (2^(n-1) of them), in lexicographic order of parts
pub fn compositions(n: usize) -> Vec<Vec<usize>> {
    fn go(rest: usize, cur: &mut Vec<usize>, out: &mut Vec<Vec<usize>>) {
        if rest == 0 {
            out.push(cur.clone());
            return;
        }
        for k in 1..=rest {
            cur.push(k);
            go(rest - k, cur, out);
            cur.pop();
        }
    }
    let mut out = vec![];
    if n == 0 {
        return vec![vec![]];
    }
    go(n, &mut vec![], &mut out);
    out
}

/// effective parallel width used to size bounds (hardware ciphers report 0)
pub fn par_of(cfg: &Cfg) -> usize {
    if cfg.par == 0 { 8 } else { cfg.par }
}

pub fn case_json(items: Vec<(&str, J)>) -> J {
    obj(items)
}
pub fn hx(b: &[u8]) -> J {
    J::Str(hex(b))
}
/// Match `expect` as an in-order subsequence of `log` (extra entries in the log are allowed: a harmless
/// refactor may pre-generate or re-generate blocks).  Ok(number of extra entries) or Err(index of the
/// first expected entry that does not occur in order).
/// Index of the first block of `want` that does not occur ANYWHERE in `log` (None: every needed block was fed to the cipher
/// at some point of the object's life).  Order and multiplicity are left to the implementation: it may prefetch, regenerate,
/// or serve a block that is needed again from memory.
pub fn first_missing(log: &[Vec<u8>], want: &[Vec<u8>]) -> Option<usize> {
    let set: std::collections::HashSet<&[u8]> = log.iter().map(|b| b.as_slice()).collect();
    want.iter().position(|w| !set.contains(w.as_slice()))
}
pub fn match_subsequence(log: &[Vec<u8>], expect: &[Vec<u8>]) -> Result<usize, usize> {
    let mut i = 0;
    for (j, e) in expect.iter().enumerate() {
        loop {
            if i >= log.len() {
                return Err(j);
            }
            i += 1;
            if log[i - 1] == *e {
                break;
            }
        }
    }
    Ok(log.len() - expect.len())
}
/// number of offsets reachable from 0 by sums of `sizes` without exceeding `max` (independent count of the
/// states a confluence machine must find when the property holds: one per reachable offset)
pub fn reachable_offsets(sizes: &[usize], max: usize) -> usize {
    let mut r = vec![false; max + 1];
    r[0] = true;
    for o in 0..=max {
        if r[o] {
            for &s in sizes {
                if s > 0 && o + s <= max {
                    r[o + s] = true;
                }
            }
        }
    }
    r.iter().filter(|x| **x).count()
}
/// first index where two byte strings differ
pub fn first_diff(a: &[u8], b: &[u8]) -> Option<usize> {
    if a.len() != b.len() {
        return Some(a.len().min(b.len()));
    }
    a.iter().zip(b).position(|(x, y)| x != y)
}
pub fn short(b: &[u8]) -> String {
    if b.len() <= 48 { hex(b) } else { format!("{}..({} bytes)", hex(&b[..48]), b.len()) }
}
