//! Shared helpers: reference runs per mode, schedule execution on block-mode objects.
use crate::ctx::*;
use base::api::*;
use base::refmodel as rf;

pub type RefFn = fn(&rf::Ciph, &[u8], &[u8]) -> (Vec<u8>, Vec<u8>);

pub fn bm_ref_fn(mode: &str, dir: Dir) -> RefFn {
    match (mode, dir) {
        ("cbc", Dir::Enc) => rf::cbc_enc,
        ("cbc", Dir::Dec) => rf::cbc_dec,
        ("pcbc", Dir::Enc) => rf::pcbc_enc,
        ("pcbc", Dir::Dec) => rf::pcbc_dec,
        ("ige", Dir::Enc) => rf::ige_enc,
        ("ige", Dir::Dec) => rf::ige_dec,
        ("cfb", Dir::Enc) => rf::cfb_enc,
        ("cfb", Dir::Dec) => rf::cfb_dec,
        ("cfb8", Dir::Enc) => rf::cfb8_enc,
        ("cfb8", Dir::Dec) => rf::cfb8_dec,
        ("ofb", _) => rf::ofb,
        _ => panic!("harness: no reference for {mode}"),
    }
}

/// Reference output for `data` and the chaining value after every prefix of whole mode blocks.
pub struct BmRef {
    pub out: Vec<u8>,
    /// states[i] = exported chaining value after i mode blocks
    pub states: Vec<Vec<u8>>,
}
pub fn bm_ref(cfg: &Cfg, d: &BlockModeDesc, key: &[u8], iv: &[u8], data: &[u8]) -> BmRef {
    let c = rf::Ciph::new(cfg, key);
    let f = bm_ref_fn(d.mode, d.dir);
    let n = data.len() / d.mbs;
    let (out, _) = f(&c, iv, data);
    let states = (0..=n).map(|i| f(&c, iv, &data[..i * d.mbs]).1).collect();
    BmRef { out, states }
}

/// one call of a schedule: `n` mode blocks, call form, and whether a single block goes through the
/// single-block entry point
#[derive(Clone, Copy, Debug, PartialEq, Eq, Hash)]
pub struct Piece {
    pub n: usize,
    pub kind: Kind,
    pub single: bool,
}
pub fn piece_s(p: &Piece) -> String {
    format!("{}{}:{}", if p.single { "1blk" } else { "" }, if p.single { String::new() } else { p.n.to_string() }, p.kind.s())
}

/// Execute one piece on `obj` over `inp`; returns the output bytes.
pub fn run_piece(obj: &mut dyn BlockMode, p: &Piece, inp: &[u8], prefill: &[u8]) -> Result<Vec<u8>, Fail> {
    let mut out = if p.kind.in_place() { inp.to_vec() } else { prefill[..inp.len()].to_vec() };
    if p.single {
        obj.one(p.kind, inp, &mut out);
    } else {
        let r = obj.many(p.kind, inp, &mut out);
        if r.is_err() {
            return fail("equal_length_call_refused", format!("{}-block call ({}) with equal lengths returned Err", p.n, p.kind.s()));
        }
    }
    Ok(out)
}
