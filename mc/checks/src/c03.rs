//! C03 — CFB, CFB-8 and OFB compute exactly their defining recurrences (every front-end, every byte
//! length, several chunkings), using only the encryption direction of the cipher.
use crate::ctx::*;
use crate::ensure;
use crate::fe::*;
use crate::util::*;
use base::api::*;
use base::json::J;
use base::toy;

/// chunkings of `l` bytes for a front-end: whole, unit-wise, every (explored) two-way split
pub fn chunkings(fe: &Fe, bs: usize, l: usize, kind: Kind) -> Vec<Vec<P>> {
    let mut v = vec![vec![p(l, kind)]];
    if !fe.multi {
        return v;
    }
    if l > 20 * bs {
        // very long inputs: one call, and a long middle piece between two short ones
        let g = fe.gran;
        if l >= 3 * g + bs {
            v.push(vec![p(g, kind), p(l - 2 * g, kind), p(g, kind)]);
            if g == 1 {
                v.push(vec![p(bs - 1 + (bs == 1) as usize, kind), p(l - bs - (bs == 1) as usize - 1, kind), p(2, kind)]);
            }
        }
        return v;
    }
    // empty calls before, between and after
    v.push(vec![p(0, kind), p(l, kind), p(0, kind)]);
    if l >= 2 * fe.gran {
        v.push(vec![p(fe.gran, kind), p(0, kind), p(l - fe.gran, kind)]);
    }
    if l > 0 {
        v.push((0..l / fe.gran).map(|_| P { len: fe.gran, kind, single: fe.singles, closure: 0 }).collect());
        if fe.singles {
            // unit-sized pieces through the multi-block entry point as well
            v.push((0..l / fe.gran).map(|_| p(fe.gran, kind)).collect());
        }
    }
    for s in split_points(bs, l, fe.gran) {
        v.push(vec![p(s, kind), p(l - s, kind)]);
    }
    // the remaining call forms: caller-supplied closures / write_keystream_blocks on the whole input, and pieces of
    // cycling sizes each through the next form of the front-end
    if kind == fe.kinds[0] {
        for path in crate::c01::paths(fe) {
            if path.closure != 0 || path.cycle.is_some() {
                v.push(crate::c01::pieces_for(fe, &path, l));
            }
        }
    }
    // long inputs through byte-granular stateful front-ends: short piece, long unaligned piece, rest
    if fe.gran == 1 && l >= 8 * bs && kind == fe.kinds[0] {
        let pts = boundary_points(bs, l);
        for a in [1usize, (bs / 2).max(1), bs.saturating_sub(1).max(1)] {
            for &b in pts.iter().filter(|b| **b > a + 3 * bs) {
                v.push(vec![p(a, kind), p(b - a, kind), p(l - b, kind)]);
            }
        }
    }
    v
}

pub fn run(ctx: &Ctx) -> Outcome {
    let cfgs = ctx.cfgs_with_sweep();
    let mut units: Vec<(&Cfg, &'static str, Dir)> = vec![];
    for c in &cfgs {
        for fam in ["cfb", "cfb8", "ofb"] {
            for dir in [Dir::Enc, Dir::Dec] {
                units.push((c, fam, dir));
            }
        }
    }
    let tier = ctx.tier;
    let seed = ctx.seed;
    let reports = par_map(&units, |(cfg, fam, dir)| {
        let mut rep = Report::new(format!("{}/{}-{}", cfg.name, fam, dir.s()));
        let bs = cfg.bs;
        let sweep = cfg.sets.contains('s');
        let lmax = if sweep { 2 * bs + 1 } else { tier.pick(3 * bs + 2, 4 * bs + 3) };
        let mut lens = byte_lengths(bs, lmax);
        let mut lmax = lmax;
        if bs <= 32 && !sweep {
            lens.extend(long_lengths(bs));
            lmax = lmax.max(*lens.iter().max().unwrap());
        }
        if bs <= 16 && !sweep {
            // very long single calls (past 32 and 64 blocks)
            lens.extend([33 * bs - 1, 65 * bs + 1]);
            lmax = lmax.max(65 * bs + 1);
        }
        lens.sort();
        lens.dedup();
        let fes = family_frontends(cfg, fam, *dir);
        let pre = dirty(lmax);
        // ---- one object used in two ways: block-level calls first, then the consuming one-shot call on the SAME object ----
        if let (true, Some(d)) = (matches!(*fam, "cfb" | "cfb8") && !sweep, cfg.block_mode(fam, *dir)) {
            let par = par_of(cfg);
            let g = d.mbs;
            // granules through block-level calls (cfb8: bytes, so also counts that are not multiples of the cipher block)
            let mut heads: Vec<usize> = if g == 1 { vec![0, 1, 2, bs - 1, bs, bs + 1, 2 * bs + 3, (par + 1) * bs + 1] } else { vec![0, 1, 2, par, par + 1, 2 * par + 1] };
            heads.sort();
            heads.dedup();
            let mut tails = vec![0usize, 1, bs - 1, bs, bs + 1, 2 * bs + 1, (par + 1) * bs + 3];
            tails.sort();
            tails.dedup();
            let total = heads.last().unwrap() * g + tails.last().unwrap();
            let key = &keys(seed, cfg.key_len)[0];
            for (ivn, iv) in iv_variants(seed, bs).into_iter().skip(light(cfg, tier)) {
                let data = pattern(seed, 0xC03A, total);
                let prefill = dirty(total);
                for &h in &heads {
                    for &t in &tails {
                        let l = h * g + t;
                        let (want, _) = family_ref(cfg, fam, *dir, key, &iv, &data[..l]);
                        // how the head is fed: 0 = one multi-block call, 1 = single-block calls, 2 = caller closure (tail shape), 3 = split in two calls
                        for how in 0..4 {
                            for kind in KINDS {
                                rep.case(|| {
                                    let mut obj = crate::rec::bm(cfg, d, key, &iv);
                                    let mut out = data[..h * g].to_vec();
                                    match how {
                                        0 => {
                                            let _ = obj.many(Kind::InPlace, &[], &mut out);
                                        }
                                        1 => {
                                            for b in out.chunks_mut(g) {
                                                obj.one(Kind::InPlace, &[], b);
                                            }
                                        }
                                        2 => obj.many_closure(2, &mut out),
                                        _ => {
                                            let cut = (h / 2) * g;
                                            let (a, b) = out.split_at_mut(cut);
                                            let _ = obj.many(Kind::InPlace, &[], a);
                                            let _ = obj.many(Kind::InPlace, &[], b);
                                        }
                                    }
                                    let inp = &data[h * g..l];
                                    let mut ob = if kind.in_place() { inp.to_vec() } else { prefill[..t].to_vec() };
                                    let r = obj.oneshot(kind, inp, &mut ob);
                                    ensure!(r == Some(Ok(())), "MACHINERY", "harness: one-shot call on an AsyncStreamCipher type");
                                    out.extend(ob);
                                    ensure!(out == want, format!("output/{}-{}/blocks-then-oneshot", fam, dir.s()), "{} iv={}: {} granule(s) through block-level calls (form {}), then the one-shot {} call on the same object with {} bytes: got {} want {} (first diff at byte {:?})", d.ty, ivn, h, how, kind.s(), t, short(&out), short(&want), first_diff(&out, &want));
                                    Ok(())
                                });
                            }
                        }
                    }
                }
            }
        }
        for key in keys(seed, cfg.key_len).iter().take(if sweep { 1 } else { tier.pick(1, 2) }) {
            for (ivn, iv) in iv_variants(seed, bs).into_iter().skip(if sweep { 2 } else { light(cfg, tier) }) {
                for (dn, data) in data_variants(seed, 0xC03, lmax).into_iter().skip(if sweep { 2 } else { light(cfg, tier) }) {
                    for &l in &lens {
                        let m = &data[..l];
                        let (want, want_state) = family_ref(cfg, fam, *dir, key, &iv, m);
                        rep.outcome(&want);
                        for fe in &fes {
                            if l % fe.gran != 0 {
                                continue;
                            }
                            for &kind in &fe.kinds {
                                for pieces in chunkings(fe, bs, l, kind) {
                                    rep.case(|| {
                                        let d0 = toy::counts();
                                        let got = (fe.run)(key, &iv, m, &pieces, &pre)?;
                                        let d1 = toy::counts();
                                        ensure!(got.out == want, format!("output/{}", fe.name), "{} L={} iv={} data={} pieces [{}]: got {} want {} (first diff at byte {:?})", fe.ty, l, ivn, dn, ps(&pieces), short(&got.out), short(&want), first_diff(&got.out, &want));
                                        if let (Some(s), Some(w)) = (&got.state, &want_state) {
                                            ensure!(s == w, format!("chaining_value/{}", fe.name), "{} L={} iv={} data={} pieces [{}]: iv_state() is {} want {}", fe.ty, l, ivn, dn, ps(&pieces), short(s), short(w));
                                        }
                                        // the only legitimate use of D is inside iv_state() of the CFB types (one call, after the data)
                                        let dcalls = (d1[3] + d1[4] + d1[5]) - (d0[3] + d0[4] + d0[5]);
                                        let allowed = if *fam == "cfb" && got.state.is_some() { (got.states.len() as u64).max(1) } else { 0 };
                                        ensure!(dcalls <= allowed, format!("decrypt_direction_used/{}", fe.name), "{} L={} pieces [{}]: the cipher's decryption direction was called {} time(s) while processing data", fe.ty, l, ps(&pieces), dcalls);
                                        Ok(())
                                    });
                                }
                            }
                        }
                        if l == bs + 1 && dn == "pat" && ivn == "pat" {
                            rep.sample(case_json(vec![("family", (*fam).into()), ("dir", dir.s().into()), ("cfg", cfg.name.as_str().into()), ("len", l.into()), ("iv", hx(&iv)), ("input", hx(m)), ("expected_output", hx(&want)), ("front_ends", J::Arr(fes.iter().map(|f| f.name.as_str().into()).collect()))]));
                        }
                    }
                }
            }
        }
        rep.finish()
    });
    let mut o = merge(reports);
    o.rule = "stateless exhaustive: family in {cfb, cfb8, ofb} x direction x configuration x front-end (block-level object, AsyncStreamCipher one-shot, buffered CFB, OFB as block encryptor / block decryptor / keystream core apply / keystream core write / byte stream) x key x IV x data x byte length x chunking (whole, unit-wise through single- and multi-block entry points, every explored two-way split) x call form; bytes and exported state compared with the reference recurrence; monitor: no call of the cipher's decryption direction while data is processed".into();
    o.configs = cfgs.iter().map(|c| c.name.clone()).collect();
    o.bounds = vec![("all_sizes_sweep".into(), J::Str(if tier == Tier::Thorough && cfgs.iter().any(|c| c.sets.contains('s')) { "every block size 1..=255 (parallel width 2) with reduced length bounds".into() } else { "not in this tier".to_string() })), ("max_len".into(), J::Str(tier.pick("3*bs+2", "4*bs+3").into())), ("lengths".into(), J::Str("every length for bs<=16, residues {0,1,2,bs/2,bs-2,bs-1} per block count otherwise".into())), ("keys".into(), J::Int(tier.pick(1, 2)))];
    o.assumptions = vec!["the decrypt-direction monitor is the harness cipher's own call counter; real-cipher configurations are compared on bytes only".into()];
    o
}
