//! C17 — mode objects do not leak chaining state via Debug output or dropped memory.
use crate::ctx::*;
use crate::ensure;
use crate::inst::*;
use crate::rec;
use crate::util::*;
use base::api::*;
use base::json::J;
use std::collections::BTreeSet;
use std::sync::Mutex;

fn histories(n_ops: usize, max_len: usize) -> Vec<Vec<usize>> {
    let mut out: Vec<Vec<usize>> = vec![vec![]];
    let mut last: Vec<Vec<usize>> = vec![vec![]];
    for _ in 0..max_len {
        let mut next = vec![];
        for h in &last {
            for o in 0..n_ops {
                let mut h2 = h.clone();
                h2.push(o);
                next.push(h2);
            }
        }
        out.extend(next.iter().cloned());
        last = next;
    }
    out
}

/// the wrapper's Debug text with the `buffer_data: [...]` field removed
fn strip_buffer_data(s: &str) -> String {
    // both the compact and the pretty form are in the text: strip every occurrence
    let mut out = String::new();
    let mut rest = s;
    while let Some(i) = rest.find("buffer_data: [") {
        out.push_str(&rest[..i]);
        out.push_str("buffer_data: [..]");
        match rest[i..].find(']') {
            Some(j) => rest = &rest[i + j + 1..],
            None => {
                rest = "";
                break;
            }
        }
    }
    out.push_str(rest);
    out
}

/// does `hay` contain a window of `win` consecutive bytes of `secret` (low-entropy windows are ignored)?
fn leaked_window(hay: &[u8], secret: &[u8], win: usize) -> Option<usize> {
    if secret.len() < win || win == 0 {
        return None;
    }
    for i in 0..=secret.len() - win {
        let wnd = &secret[i..i + win];
        // low-entropy windows (runs of zeros / 0xFF with a stray byte) also occur in wiped memory next to
        // the cipher; a window must have at least four distinct byte values to count as a secret
        if wnd.iter().collect::<BTreeSet<_>>().len() < 4 {
            continue;
        }
        if hay.windows(win).any(|h| h == wnd) {
            return Some(i);
        }
    }
    None
}

pub fn run(ctx: &Ctx) -> Outcome {
    let cfgs = ctx.cfgs();
    let tier = ctx.tier;
    let seed = ctx.seed;
    let zeroize = ctx.reg.zeroize;
    let units: Vec<(&Cfg, usize)> = cfgs.iter().flat_map(|c| (0..all_kinds(c).len()).map(move |i| (*c, i))).collect();
    let present_before = Mutex::new(0u64);
    let reports = par_map(&units, |(cfg, wi)| {
        let w = all_kinds(cfg)[*wi];
        let mut rep = Report::new(format!("{}/{}", cfg.name, w.label()));
        let label = w.label();
        let data = pattern(seed, 0xC17, (par_of(cfg) + 2) * cfg.bs + 8);
        // the extended alphabet: every call form of the kind (single / multi / exact multiples of the width / write_* / caller closures)
        let hs = histories(w.n_ops_ext(), tier.pick(3, 4));
        let mut texts: BTreeSet<String> = BTreeSet::new();
        let mut stripped: BTreeSet<String> = BTreeSet::new();
        let mut first: Option<(String, String)> = None;
        let mut before_hits = 0u64;
        for key in keys(seed, cfg.key_len) {
            for (ivn, iv) in iv_variants(seed, w.iv_len(cfg)) {
                for h in &hs {
                    // ---- Debug text in the state reached by h --------------------------------------
                    let here = format!("key={} iv={} history={:?}", short(&key), ivn, h.iter().map(|o| w.op_name(cfg, *o)).collect::<Vec<_>>());
                    let Ok(text) = caught(&|| {
                        let mut o = w.make(cfg, &key, &iv);
                        for &op in h {
                            o.op(cfg, op, &data);
                        }
                        Ok(o.debug())
                    }) else {
                        rep.case(|| {
                            let mut o = w.make(cfg, &key, &iv);
                            for &op in h {
                                o.op(cfg, op, &data);
                            }
                            let _ = o.debug();
                            Ok(())
                        });
                        continue;
                    };
                    if first.is_none() {
                        first = Some((text.clone(), here.clone()));
                    }
                    let (t0, h0) = first.clone().unwrap();
                    let is_stream = matches!(w, Which::Stream(_));
                    if texts.insert(text.clone()) && text != t0 {
                        let only_buffer = is_stream && strip_buffer_data(&text) == strip_buffer_data(&t0);
                        let fp = if only_buffer { "debug_depends_on_state/stream_wrapper_buffer_data".to_string() } else { format!("debug_depends_on_state/{label}") };
                        rep.case(|| {
                            let mut o = w.make(cfg, &key, &iv);
                            for &op in h {
                                o.op(cfg, op, &data);
                            }
                            let t = o.debug();
                            ensure!(t == t0, fp.clone(), "{}: Debug text depends on more than the type: {:?} in state [{}] but {:?} in state [{}]", w.ty(), t, here, t0, h0);
                            Ok(())
                        });
                    } else {
                        rep.cases += 1;
                    }
                    rep.outcome(text.as_bytes());
                    stripped.insert(strip_buffer_data(&text));
                    // ---- zeroize: drop as the terminal transition --------------------------------------
                    if zeroize && cfg.bs >= 8 && cfg.is_toy() {
                        let hits = std::cell::Cell::new(0u64);
                        let unstable = std::cell::Cell::new(0u64);
                        // one scan: build the object, run the history, drop it inside zeroed storage, look for secret windows
                        let scan = || -> Option<String> {
                            struct Off;
                            impl Drop for Off {
                                fn drop(&mut self) {
                                    rec::scrub_calls(false);
                                }
                            }
                            let _off = Off;
                            rec::scrub_calls(true);
                            let mut o = w.make(cfg, &key, &iv);
                            for &op in h {
                                o.op(cfg, op, &data);
                            }
                            let secrets = o.secrets(cfg, &w, &key, &iv);
                            let (after, before) = o.drop_scan();
                            for (name, sec) in &secrets {
                                // 8-byte windows; the only shorter secrets examined are the 4-byte integers of the 32-bit flavours
                                // (counter, nonce chunks), and only when they have four distinct non-zero bytes
                                let win = sec.len().min(8);
                                if win < 8 && !(win == 4 && sec.iter().all(|b| *b != 0) && sec.iter().collect::<BTreeSet<_>>().len() == 4) {
                                    continue;
                                }
                                if leaked_window(&before, sec, win).is_some() {
                                    hits.set(hits.get() + 1);
                                }
                                if let Some(i) = leaked_window(&after, sec, win) {
                                    return Some(format!("{} in state [{}]: after drop the object's storage still contains bytes {}..{} of '{}' = {} (storage: {})", w.ty(), here, i, i + win, name, short(sec), short(&after)));
                                }
                            }
                            None
                        };
                        rep.case(|| {
                            // Bytes of the object that no field owns (padding, the payload of an `Option` that is `None`) hold
                            // whatever the stack held; a window found there does not reproduce.  A field that is not wiped
                            // reproduces every time: only a finding present in three scans out of three is a violation.
                            if let Some(msg) = scan() {
                                if scan().is_some() && scan().is_some() {
                                    return fail(format!("not_zeroized/{label}"), msg);
                                }
                                unstable.set(unstable.get() + 1);
                            }
                            Ok(())
                        });
                        if unstable.get() > 0 {
                            rep.count("unstable_residue_not_reproduced", unstable.get());
                        }
                        before_hits += hits.get();
                    }
                }
            }
        }
        *present_before.lock().unwrap() += before_hits;
        rep.count("debug_states_examined", (hs.len() * 6) as u64);
        rep.count("distinct_debug_texts", texts.len() as u64);
        if zeroize && cfg.bs >= 8 && cfg.is_toy() && before_hits == 0 {
            rep.notes.push(format!("zeroize scan for {} {}: no secret window was visible before the drop either (vacuous for this kind)", cfg.name, label));
        }
        if let Some((t0, _)) = &first {
            rep.sample(case_json(vec![("type", w.ty().into()), ("debug_text", t0.as_str().into()), ("states", (hs.len() * 6).into()), ("distinct_texts", texts.len().into())]));
        }
        rep.finish()
    });
    // algorithm-name text: a function of the type only (no instance involved); it must not embed anything else
    let r2 = par_map(&cfgs, |cfg| {
        let mut rep = Report::new(format!("{}/alg_name", cfg.name));
        let mut check = |ty: &str, f: fn() -> String| {
            rep.case(|| {
                let a = f();
                let b = f();
                ensure!(a == b && !a.is_empty() && a.chars().all(|c| c.is_ascii_graphic() || c == ' '), "alg_name_unstable", "{}: algorithm name {:?} / {:?}", ty, a, b);
                Ok(())
            });
        };
        for d in &cfg.block_modes {
            check(&d.ty, d.alg_name);
        }
        for d in &cfg.cores {
            check(&d.ty, d.alg_name);
        }
        for d in &cfg.bufcfb {
            check(&d.ty, d.alg_name);
        }
        rep.finish()
    });
    let mut o = merge(reports);
    extend(&mut o, merge(r2));
    o.counters.insert("secret_windows_visible_before_drop".into(), *present_before.lock().unwrap());
    o.rule = "explicit-state exploration of short histories per object kind (12 block-mode types, keystream cores, byte-level aliases, buffered CFB) from 2 keys x 3 IVs: in every state reached the Debug text (compact `{:?}` and pretty `{:#?}` form) must equal the text of the first state of that type (one string per type); algorithm-name text is stable; zeroize build: drop_in_place in zero-initialised heap storage is the terminal transition and the storage is scanned for any window of min(8,len) bytes of: initial IV, exported state, its encryption (CFB feedback), counter value, integer-encoded nonce chunks, BelT s / s_init, unconsumed keystream in the wrapper buffer (windows with fewer than four distinct byte values ignored; 8-byte windows, plus the 4-byte counter of the 32-bit flavours when it has four distinct non-zero bytes; block size >= 8; harness-cipher configurations only, whose objects are laid out without padding)".into();
    o.configs = cfgs.iter().map(|c| c.name.clone()).collect();
    o.bounds = vec![("history_depth".into(), J::Int(tier.pick(2, 3))), ("zeroize_scan".into(), zeroize.into())];
    o.assumptions = vec![
        "the drop scan reads the object's own storage (including padding) through a raw pointer after drop_in_place; copies of secrets in stack temporaries or registers are outside the property".into(),
        "cts types implement neither Debug nor a zeroize feature: nothing to check there".into(),
        "non-vacuity (a secret window was visible before the drop) is reported in counters.secret_windows_visible_before_drop, never required".into(),
    ];
    if !zeroize {
        o.notes.push("this binary was built WITHOUT the repo crates' zeroize feature: only the Debug / algorithm-name clauses were explored".into());
    }
    o
}
