//! C15 — error propagation and data dependence match each mode's definition.
use crate::c07::{FAMILIES, fam_dirs};
use crate::ctx::*;
use crate::ensure;
use crate::fe::*;
use crate::util::*;
use base::api::*;
use base::json::J;
use base::toy;

/// differences applied to one unit (block or byte) of `ulen` bytes
pub fn deltas(ulen: usize) -> Vec<(String, Vec<u8>)> {
    let nbits = 8 * ulen;
    let bits: Vec<usize> = if ulen <= 8 { (0..nbits).collect() } else { vec![0, 1, 7, 8, nbits / 2, nbits - 2, nbits - 1] };
    let mut v: Vec<(String, Vec<u8>)> = bits
        .into_iter()
        .map(|b| {
            let mut d = vec![0u8; ulen];
            d[b / 8] ^= 1 << (b % 8);
            (format!("bit{b}"), d)
        })
        .collect();
    let mut byte = vec![0u8; ulen];
    byte[0] = 0xff;
    v.push(("byte0".into(), byte));
    if ulen > 1 {
        v.push(("all".into(), vec![0xff; ulen]));
    }
    v
}

fn whole<'a>(cfg: &'a Cfg, fam: &str, dir: Dir) -> Fe<'a> {
    // one representative front-end per family: block-level object for the block modes, byte stream otherwise
    let fes = family_frontends(cfg, fam, dir);
    match fam {
        "cbc" | "pcbc" | "ige" | "cfb" | "cfb8" => fes.into_iter().next().unwrap(),
        _ => fes.into_iter().find(|f| f.name.ends_with("/stream")).unwrap(),
    }
}

pub fn run(ctx: &Ctx) -> Outcome {
    let cfgs = ctx.cfgs();
    let tier = ctx.tier;
    let seed = ctx.seed;
    let mut units: Vec<(&Cfg, &'static str)> = vec![];
    for c in &cfgs {
        for fam in FAMILIES {
            if fam_dirs(c).iter().any(|(f, _)| *f == fam) {
                units.push((c, fam));
            }
        }
    }
    let reports = par_map(&units, |(cfg, fam)| {
        let mut rep = Report::new(format!("{}/{}", cfg.name, fam));
        let bs = cfg.bs;
        let block_fam = matches!(*fam, "cbc" | "pcbc" | "ige" | "cfb");
        // unit of perturbation: a block for the block modes, a byte for CFB-8 and the stream modes
        let u = if block_fam { bs } else { 1 };
        let n_units = if block_fam { tier.pick(6, 9) } else { tier.pick(2 * bs + 3, 3 * bs + 3).min(tier.pick(40, 80)) };
        let l = n_units * u;
        let iv_len = if *fam == "ige" { 2 * bs } else { bs };
        let key = &keys(seed, cfg.key_len)[0];
        let pre = dirty(l);
        let stream_fam = !matches!(*fam, "cbc" | "pcbc" | "ige" | "cfb" | "cfb8");
        let dec_dir = if stream_fam { Dir::Enc } else { Dir::Dec };
        let dec = whole(cfg, fam, dec_dir);
        let enc = whole(cfg, fam, Dir::Enc);
        let mut coincidences = 0u64;
        for (ivn, iv) in iv_variants(seed, iv_len).into_iter().skip(tier.pick(1, 0)) {
            let datas = data_variants(seed, 0xC15, l);
            for (dn, ct) in &datas {
              // the same experiment under several call schedules on one object: one call; one unit, then the rest;
              // a unit-aligned short call, then the rest (the shape must not depend on how the data was fed)
              let mut schedules: Vec<Vec<P>> = vec![vec![p(l, Kind::InPlace)]];
              if dec.kinds.contains(&Kind::B2b) {
                  schedules.push(vec![p(l, Kind::B2b)]);
              }
              if dec.multi && l >= 3 * u {
                  schedules.push(vec![p(u, Kind::InPlace), p(l - u, Kind::InPlace)]);
                  schedules.push(vec![p(2 * u, Kind::B2b), p(l - 2 * u, Kind::InPlace)]);
                  // an empty call first, and one in the middle
                  schedules.push(vec![p(0, Kind::InPlace), p(u, Kind::InPlace), p(0, Kind::InPlace), p(l - u, Kind::B2b)]);
              }
              if dec.multi && l >= 4 * u {
                  // caller-supplied closure shapes (block-level objects / cores): a closure call that leaves a tail of one
                  // unit after the full groups, then the rest through the ordinary call
                  let par = par_of(cfg);
                  let a = ((par + 1) * u).min(l - 2 * u);
                  for &c in dec.closures.iter().filter(|c| **c != 9) {
                      schedules.push(vec![pc(a, c), p(l - a, Kind::InPlace)]);
                  }
              }
              if dec.multi {
                  // every call form of the front-end in turn (single-block entry points, closures, write_*), and unit by unit
                  for path in crate::c01::paths(&dec) {
                      if path.cycle == Some(0) || path.unit {
                          schedules.push(crate::c01::pieces_for(&dec, &path, l));
                      }
                  }
              }
              for pieces in &schedules {
                let pieces = &pieces[..];
                let Ok(Ok(base)) = std::panic::catch_unwind(std::panic::AssertUnwindSafe(|| (dec.run)(key, &iv, ct, pieces, &pre))) else {
                    rep.case(|| (dec.run)(key, &iv, ct, pieces, &pre).map(|_| ()));
                    continue;
                };
                let base_enc = (enc.run)(key, &iv, ct, pieces, &pre).map(|o| o.out).unwrap_or_default();
                rep.outcome(&base.out);
                for j in 0..n_units {
                    for (dname, delta) in deltas(u) {
                        let mut ct2 = ct.clone();
                        for (a, b) in ct2[j * u..(j + 1) * u].iter_mut().zip(&delta) {
                            *a ^= b;
                        }
                        let (want2, _) = family_ref(cfg, fam, dec_dir, key, &iv, &ct2);
                        let coin = std::cell::Cell::new(0u64);
                        let ok = rep.case(|| {
                            let got = (dec.run)(key, &iv, &ct2, pieces, &pre)?;
                            ensure!(got.out == want2, format!("perturbed_output_wrong/{}", fam), "{} iv={} data={}: decrypting the ciphertext with difference {} at unit {} gives {} want {} (first diff at byte {:?})", dec.ty, ivn, dn, dname, j, short(&got.out), short(&want2), first_diff(&got.out, &want2));
                            let diff: Vec<u8> = got.out.iter().zip(&base.out).map(|(a, b)| a ^ b).collect();
                            let unit = |i: usize| &diff[i * u..(i + 1) * u];
                            let zero = |s: &[u8]| s.iter().all(|b| *b == 0);
                            // causality: nothing before the perturbed unit changes
                            ensure!(zero(&diff[..j * u]), format!("output_depends_on_later_input/{}-dec", fam), "{}: changing ciphertext unit {} changed plaintext before it: diff {}", dec.ty, j, short(&diff));
                            match *fam {
                                "cbc" => {
                                    ensure!(!zero(unit(j)), "shape/cbc/block_j_unchanged", "{}: block {} unchanged", dec.ty, j);
                                    if j + 1 < n_units {
                                        ensure!(unit(j + 1) == &delta[..], "shape/cbc/next_block_not_delta", "{}: block {} differs by {} want exactly the ciphertext difference {}", dec.ty, j + 1, short(unit(j + 1)), short(&delta));
                                    }
                                    ensure!(zero(&diff[((j + 2) * u).min(l)..]), "shape/cbc/no_resync", "{}: blocks after {} changed: {}", dec.ty, j + 1, short(&diff));
                                }
                                "cfb" => {
                                    ensure!(unit(j) == &delta[..], "shape/cfb/block_j_not_delta", "{}: block {} differs by {} want exactly {}", dec.ty, j, short(unit(j)), short(&delta));
                                    if j + 1 < n_units {
                                        ensure!(!zero(unit(j + 1)), "shape/cfb/next_block_unchanged", "{}: block {} unchanged", dec.ty, j + 1);
                                    }
                                    ensure!(zero(&diff[((j + 2) * u).min(l)..]), "shape/cfb/no_resync", "{}: blocks after {} changed: {}", dec.ty, j + 1, short(&diff));
                                }
                                "cfb8" => {
                                    ensure!(unit(j) == &delta[..], "shape/cfb8/byte_j_not_delta", "{}: byte {} differs by {:02x?} want {:02x?}", dec.ty, j, unit(j), delta);
                                    ensure!(zero(&diff[(j + 1 + bs).min(l)..]), "shape/cfb8/no_resync", "{}: bytes more than {} positions after byte {} changed: {}", dec.ty, bs, j, short(&diff));
                                    if zero(&diff[(j + 1).min(l)..(j + 1 + bs).min(l)]) && j + 1 < l {
                                        coin.set(coin.get() + 1);
                                    }
                                }
                                "pcbc" | "ige" => {
                                    ensure!(!zero(unit(j)), format!("shape/{}/block_j_unchanged", fam), "{}: block {} unchanged", dec.ty, j);
                                    for i in j + 1..n_units {
                                        if zero(unit(i)) {
                                            coin.set(coin.get() + 1); // possible only if the toy cipher coincides; the exact value is pinned by the reference above
                                        }
                                    }
                                }
                                _ => {
                                    // CTR, OFB, BelT-CTR: exactly the same bit positions flip, nothing else
                                    ensure!(unit(j) == &delta[..] && zero(&diff[(j + 1) * u..]), format!("shape/{}/not_only_delta", fam), "{}: difference {:02x?} at byte {} produced output difference {}", dec.ty, delta, j, short(&diff));
                                }
                            }
                            Ok(())
                        });
                        if ok {
                            coincidences += coin.get();
                        }
                        // causality for the encryption direction
                        if !stream_fam {
                            rep.case(|| {
                                let got = (enc.run)(key, &iv, &ct2, pieces, &pre)?;
                                ensure!(got.out[..j * u] == base_enc[..j * u], format!("output_depends_on_later_input/{}-enc", fam), "{}: changing input unit {} changed output before it", enc.ty, j);
                                Ok(())
                            });
                        }
                    }
                }
              }
            }
            // keystream independence of the data (stream modes), and identical backend call shapes across data
            if stream_fam {
                // through EVERY front-end of the family (byte stream, keystream core apply / write, OFB as block encryptor and
                // decryptor), first piece of two granules-or-more in one call form, rest in another
                let mut fes = family_frontends(cfg, fam, Dir::Enc);
                if *fam == "ofb" {
                    fes.extend(family_frontends(cfg, fam, Dir::Dec));
                }
                for fe in fes.iter().filter(|f| f.multi) {
                    let g = fe.gran;
                    let lf = l / g * g;
                    let cut = if g == 1 { (bs + 1).min(lf / 2) } else { (2 * g).min(lf.saturating_sub(g)) };
                    if cut == 0 || cut >= lf {
                        continue;
                    }
                    for (k1, k2) in [(Kind::InPlace, Kind::B2b), (Kind::B2b, Kind::InPlace), (Kind::B2b, Kind::B2b), (Kind::InOut, Kind::Alias)] {
                        if !fe.kinds.contains(&k1) || !fe.kinds.contains(&k2) {
                            continue;
                        }
                        for (an, a) in &datas {
                            for (bn, b) in &datas {
                                rep.case(|| {
                                    let pieces = [p(cut, k1), p(lf - cut, k2)];
                                    let oa = (fe.run)(key, &iv, &a[..lf], &pieces, &pre)?;
                                    let ob = (fe.run)(key, &iv, &b[..lf], &pieces, &pre)?;
                                    let ka: Vec<u8> = oa.out.iter().zip(a).map(|(x, y)| x ^ y).collect();
                                    let kb: Vec<u8> = ob.out.iter().zip(b).map(|(x, y)| x ^ y).collect();
                                    ensure!(ka == kb && oa.state == ob.state, format!("keystream_depends_on_data/{}", fam), "{} ({}) iv={} pieces [{}]: keystream (output xor input) for data {} is {} but for data {} it is {}", fe.ty, fe.name, ivn, ps(&pieces), an, short(&ka), bn, short(&kb));
                                    Ok(())
                                });
                            }
                        }
                    }
                }
            }
            if cfg.is_toy() {
                let shapes: Vec<Vec<(u8, u8)>> = datas
                    .iter()
                    .map(|(_, dta)| {
                        toy::log_start();
                        let _ = std::panic::catch_unwind(std::panic::AssertUnwindSafe(|| (dec.run)(key, &iv, dta, &[p(l, Kind::InPlace)], &pre).map(|_| ())));
                        toy::log_take().iter().map(|c| (c.dir, c.entry)).collect()
                    })
                    .collect();
                // Not a claim of the property (which speaks about the keystream VALUES): an assumption behind exploring three
                // data patterns per shape.  If the sequence of backend calls ever depends on the data, say so in the evidence
                // instead of raising an alarm.
                rep.cases += 1;
                if !shapes.iter().all(|s| *s == shapes[0]) {
                    rep.count("call_shape_depends_on_data", 1);
                    rep.notes.push(format!("{} {}: the sequence of backend calls (direction, entry kind) differs between data patterns: the data-oblivious-control-flow assumption does not hold for this type", cfg.name, dec.ty));
                }
            }
        }
        rep.count("coincidences_counted_not_asserted", coincidences);
        rep.sample(case_json(vec![("family", (*fam).into()), ("cfg", cfg.name.as_str().into()), ("units", n_units.into()), ("unit_bytes", u.into()), ("deltas", J::Arr(deltas(u).iter().map(|(n, _)| n.as_str().into()).collect()))]));
        rep.finish()
    });
    let mut o = merge(reports);
    o.rule = "stateless exhaustive: mode x configuration x IV x data x n units (blocks; bytes for CFB-8 and the stream modes) x call schedule (one call in place; one call b2b; one unit then the rest; two units b2b then the rest; empty calls before and between) x position j x difference delta (every single-bit flip of the unit for units <= 8 bytes, else bits {0,1,7,8,mid,last-1,last}, a full byte, a full unit); oracle: dec(c xor delta@j) equals the reference exactly AND the difference to dec(c) has the prescribed support (CBC: block j changed, block j+1 = delta, rest equal; CFB: block j = delta, block j+1 changed, rest equal; CFB-8: byte j = delta, changes confined to the next bs bytes; CTR/OFB/BelT: only delta at j; PCBC/IGE: block j changed, later blocks as the reference predicts); causality for both directions; stream modes: output xor input and end state identical for every ordered pair of data patterns; backend call shapes across data patterns are recorded (an assumption monitor, not a verdict). Non-zero claims only where bijectivity guarantees them".into();
    o.configs = cfgs.iter().map(|c| c.name.clone()).collect();
    o.bounds = vec![("blocks".into(), J::Int(tier.pick(6, 9))), ("bytes_for_byte_modes".into(), J::Str(tier.pick("min(2*bs+3, 40)", "min(3*bs+3, 80)").into()))];
    o
}
