//! A uniform "instance with a small operation alphabet" view over every object kind, used by C16
//! (clones / independent instances) and C17 (Debug text, zeroize-on-drop).
use crate::ctx::*;
use crate::rec;
use base::api::*;
use base::refmodel as rf;

pub enum Obj {
    /// object and its mode block size (1 for CFB-8)
    Bm(Box<dyn BlockMode>, usize),
    Core(Box<dyn Core>),
    Stream(Box<dyn Stream>),
    Buf(Box<dyn BufCfb>),
}

/// which object kind of a configuration
#[derive(Clone, Copy)]
pub enum Which<'a> {
    Bm(&'a BlockModeDesc),
    Core(&'a CoreDesc),
    Stream(&'a CoreDesc),
    Buf(&'a BufCfbDesc),
}
impl<'a> Which<'a> {
    pub fn ty(&self) -> String {
        match self {
            Which::Bm(d) => d.ty.clone(),
            Which::Core(d) => d.ty.clone(),
            Which::Stream(d) => format!("StreamCipherCoreWrapper<{}>", d.ty),
            Which::Buf(d) => d.ty.clone(),
        }
    }
    /// short family label used in fingerprints
    pub fn label(&self) -> String {
        match self {
            Which::Bm(d) => format!("{}-{}", d.mode, d.dir.s()),
            Which::Core(d) => format!("{}/core", d.mode),
            Which::Stream(d) => format!("{}/stream", d.mode),
            Which::Buf(d) => format!("bufcfb-{}", d.dir.s()),
        }
    }
    pub fn iv_len(&self, cfg: &Cfg) -> usize {
        match self {
            Which::Bm(d) => d.iv_len,
            _ => cfg.bs,
        }
    }
    pub fn clonable(&self) -> bool {
        match self {
            Which::Core(d) | Which::Stream(d) => d.clonable,
            _ => true,
        }
    }
    pub fn make(&self, cfg: &Cfg, key: &[u8], iv: &[u8]) -> Obj {
        match self {
            Which::Bm(d) => Obj::Bm(rec::bm(cfg, d, key, iv), d.mbs),
            Which::Core(d) => Obj::Core(rec::core(cfg, d, key, iv)),
            Which::Stream(d) => Obj::Stream(rec::stream(cfg, d, key, iv)),
            Which::Buf(d) => Obj::Buf(rec::buf(cfg, d, key, iv)),
        }
    }
    /// number of operations in this kind's alphabet
    pub fn n_ops(&self) -> usize {
        match self {
            Which::Bm(_) => 3,
            Which::Core(d) => if d.seekable { 4 } else { 3 },
            Which::Stream(d) => if d.seekable { 4 } else { 2 },
            Which::Buf(_) => 5,
        }
    }
    /// size of the extended alphabet: the base operations followed by further call forms (exact multiples of the
    /// backend width, single-block and write_* entry points, caller-supplied closures).  Used at depth 1 by C16 and
    /// throughout by C17.
    pub fn n_ops_ext(&self) -> usize {
        self.n_ops()
            + match self {
                Which::Bm(_) => 3,
                Which::Core(d) => if d.seekable { 6 } else { 4 },
                Which::Stream(d) => if d.seekable { 2 } else { 1 },
                Which::Buf(_) => 1,
            }
    }
    pub fn op_name(&self, cfg: &Cfg, op: usize) -> String {
        let par = crate::util::par_of(cfg);
        if op >= self.n_ops() {
            return match (self, op - self.n_ops()) {
                (Which::Bm(_), 0) => format!("blocks({par})"),
                (Which::Bm(_), 1) => format!("with_backend(caller closure: par groups then singles, {par} blocks)"),
                (Which::Bm(_), _) => "block_b2b()".into(),
                (Which::Core(_), 0) => "apply_keystream_block_inout()".into(),
                (Which::Core(_), 1) => "write_keystream_block()".into(),
                (Which::Core(_), 2) => format!("process_with_backend(caller closure, {par} blocks)"),
                (Which::Core(_), 3) => format!("apply_keystream_blocks_inout({par})"),
                (Which::Core(_), 4) => "set_block_pos(last counter value - 3)".into(),
                (Which::Core(_), _) => "set_block_pos(last counter value)".into(),
                (Which::Stream(_), 0) => format!("apply_keystream_inout({})", 2 * cfg.bs + 3),
                (Which::Stream(_), _) => format!("seek::<u128>({}*2^32 - {})", cfg.bs, cfg.bs + 3),
                (Which::Buf(_), _) => format!("process({})", 2 * cfg.bs),
            };
        }
        match (self, op) {
            (Which::Bm(_), 0) => "block()".into(),
            (Which::Bm(_), 1) => format!("blocks_b2b({})", par + 1),
            (Which::Bm(_), _) => "iv_state()".into(),
            (Which::Core(_), 0) => "apply_keystream_blocks(1)".into(),
            (Which::Core(_), 1) => format!("write_keystream_blocks({})", par + 1),
            (Which::Core(_), 2) => "iv_state()+remaining_blocks()".into(),
            (Which::Core(_), _) => "set_block_pos(0x0102030405060708..)".into(),
            (Which::Stream(_), 0) => "apply_keystream(1)".into(),
            (Which::Stream(_), 1) => format!("apply_keystream_b2b({})", cfg.bs + 1),
            (Which::Stream(_), 2) => format!("seek::<u64>({})", cfg.bs + 2),
            (Which::Stream(_), _) => "current_pos::<u128>()".into(),
            (Which::Buf(_), 0) => "process(1)".into(),
            (Which::Buf(_), 1) => format!("process({})", cfg.bs + 1),
            (Which::Buf(_), 2) => "get_state()".into(),
            (Which::Buf(_), 3) => format!("process({})", cfg.bs - 1),
            (Which::Buf(_), _) => format!("process({})", cfg.bs / 2 + 1),
        }
    }
}

impl<'a> Which<'a> {
    /// What a FRESH instance must observe for operation 0 followed by operation 1, computed from the reference model alone
    /// (no real object involved): used where an expectation obtained by running the real code could itself be contaminated
    /// by process-wide state.
    pub fn ref_first_two_ops(&self, cfg: &Cfg, key: &[u8], iv: &[u8], data: &[u8]) -> [Vec<u8>; 2] {
        let bs = cfg.bs;
        let par = crate::util::par_of(cfg);
        match self {
            Which::Bm(d) => {
                let g = d.mbs;
                let n = (par + 1) * g;
                let input = [&data[..g], &data[..n]].concat();
                let out = crate::fe::family_ref(cfg, d.mode, d.dir, key, iv, &input).0;
                [out[..g].to_vec(), out[g..].to_vec()]
            }
            Which::Core(d) => {
                let ks = crate::fe::family_ref(cfg, d.mode, Dir::Enc, key, iv, &vec![0u8; (par + 2) * bs]).0;
                [rf::x(&data[..bs], &ks[..bs]), ks[bs..].to_vec()]
            }
            Which::Stream(d) => {
                let ks = crate::fe::family_ref(cfg, d.mode, Dir::Enc, key, iv, &vec![0u8; bs + 2]).0;
                let mut a = rf::x(&data[..1], &ks[..1]);
                a.push(1);
                let mut b = rf::x(&data[..bs + 1], &ks[1..]);
                b.push(1);
                [a, b]
            }
            Which::Buf(d) => {
                let input = [&data[..1], &data[..bs + 1]].concat();
                let out = crate::fe::family_ref(cfg, "cfb", d.dir, key, iv, &input).0;
                [out[..1].to_vec(), out[1..].to_vec()]
            }
        }
    }
}

/// a block position with many distinct non-zero bytes that fits the counter width
pub fn big_block_pos(w: u32) -> u128 {
    match w {
        32 => 0xA1B2_C3D4,
        64 => 0xA1B2_C3D4_E5F6_0718,
        _ => 0xA1B2_C3D4_E5F6_0718_293A_4B5C_6D7E_8F90,
    }
}

impl Obj {
    /// perform operation `op` with the fixed `data`; the observation is everything the call returned
    pub fn op(&mut self, cfg: &Cfg, op: usize, data: &[u8]) -> Vec<u8> {
        let bs = cfg.bs;
        let par = crate::util::par_of(cfg);
        match self {
            Obj::Bm(b, g) => {
                let g = *g;
                match op {
                    3 => {
                        let mut o = data[..par * g].to_vec();
                        let _ = b.many(Kind::InPlace, &[], &mut o);
                        o
                    }
                    4 => {
                        let mut o = data[..par * g].to_vec();
                        b.many_closure(1, &mut o);
                        o
                    }
                    5 => {
                        let mut o = dirty(g);
                        b.one(Kind::B2b, &data[..g], &mut o);
                        o
                    }
                    0 => {
                        let mut o = data[..g].to_vec();
                        b.one(Kind::InPlace, &[], &mut o);
                        o
                    }
                    1 => {
                        let n = (par + 1) * g;
                        let mut o = dirty(n);
                        let _ = b.many(Kind::B2b, &data[..n], &mut o);
                        o
                    }
                    _ => b.iv_state(),
                }
            }
            Obj::Core(c) => match if op >= (if c.get_block_pos().is_some() { 4 } else { 3 }) { 10 + op - (if c.get_block_pos().is_some() { 4 } else { 3 }) } else { op } {
                10 => {
                    let mut o = data[..bs].to_vec();
                    c.apply_block(Kind::InPlace, &[], &mut o);
                    o
                }
                11 => {
                    let mut o = dirty(bs);
                    c.write_block(&mut o);
                    o
                }
                12 => {
                    let mut o = dirty(par * bs);
                    c.write_blocks_closure(1, &mut o);
                    o
                }
                13 => {
                    let mut o = dirty(par * bs);
                    let _ = c.apply_blocks(Kind::B2b, &data[..par * bs], &mut o);
                    o
                }
                14 => {
                    // three blocks before the end of the counter space, whatever the counter width
                    let w = if c.set_block_pos(u128::MAX - 3) {
                        128
                    } else if c.set_block_pos(u64::MAX as u128 - 3) {
                        64
                    } else {
                        let _ = c.set_block_pos(u32::MAX as u128 - 3);
                        32
                    };
                    vec![w as u8]
                }
                15 => {
                    // exactly on the last counter value (one block left at most)
                    let w = if c.set_block_pos(u128::MAX) {
                        128
                    } else if c.set_block_pos(u64::MAX as u128) {
                        64
                    } else {
                        let _ = c.set_block_pos(u32::MAX as u128);
                        32
                    };
                    vec![w as u8]
                }
                0 => {
                    let mut o = data[..bs].to_vec();
                    let _ = c.apply_blocks(Kind::InPlace, &[], &mut o);
                    o
                }
                1 => {
                    let mut o = dirty((par + 1) * bs);
                    c.write_blocks(&mut o);
                    o
                }
                2 => {
                    let mut o = c.iv_state();
                    o.extend(format!("{:?}{:?}", c.remaining_blocks(), c.get_block_pos()).into_bytes());
                    o
                }
                _ => {
                    let w = match c.get_block_pos() {
                        Some(_) => {
                            // width is not visible here: try the widest value that fits
                            if c.set_block_pos(big_block_pos(128)) {
                                128
                            } else if c.set_block_pos(big_block_pos(64)) {
                                64
                            } else {
                                let _ = c.set_block_pos(big_block_pos(32));
                                32
                            }
                        }
                        None => 0,
                    };
                    vec![w as u8]
                }
            },
            Obj::Stream(s) => match if op >= (if s.pos(SeekTy::U64).is_some() { 4 } else { 2 }) { 10 + op - (if s.pos(SeekTy::U64).is_some() { 4 } else { 2 }) } else { op } {
                11 => format!("{:?}", s.seek(SeekTy::U128, ((bs as u128) << 32) - bs as u128 - 3)).into_bytes(),
                10 => {
                    let n = 2 * bs + 3;
                    let mut o = dirty(n);
                    let r = s.apply(Kind::InOut, &data[..n], &mut o);
                    o.push(r.is_ok() as u8);
                    o
                }
                0 => {
                    let mut o = data[..1].to_vec();
                    let r = s.apply(Kind::InPlace, &[], &mut o);
                    o.push(r.is_ok() as u8);
                    o
                }
                1 => {
                    let mut o = dirty(bs + 1);
                    let r = s.apply(Kind::B2b, &data[..bs + 1], &mut o);
                    o.push(r.is_ok() as u8);
                    o
                }
                2 => format!("{:?}", s.seek(SeekTy::U64, (bs + 2) as u128)).into_bytes(),
                _ => format!("{:?}{:?}", s.pos(SeekTy::U128), s.core_remaining()).into_bytes(),
            },
            Obj::Buf(b) => match op {
                5 => {
                    let mut o = data[..2 * bs].to_vec();
                    b.process(&mut o);
                    o
                }
                0 => {
                    let mut o = data[..1].to_vec();
                    b.process(&mut o);
                    o
                }
                1 => {
                    let mut o = data[..bs + 1].to_vec();
                    b.process(&mut o);
                    o
                }
                2 => {
                    let (blk, p) = b.get_state();
                    let mut o = blk;
                    o.push(p as u8);
                    o
                }
                3 => {
                    let mut o = data[..bs - 1].to_vec();
                    b.process(&mut o);
                    o
                }
                _ => {
                    let mut o = data[..bs / 2 + 1].to_vec();
                    b.process(&mut o);
                    o
                }
            },
        }
    }
    pub fn dup(&self) -> Option<Obj> {
        match self {
            Obj::Bm(b, g) => Some(Obj::Bm(b.dup(), *g)),
            Obj::Core(c) => c.dup().map(Obj::Core),
            Obj::Stream(s) => s.dup().map(Obj::Stream),
            Obj::Buf(b) => Some(Obj::Buf(b.dup())),
        }
    }
    /// `Clone::clone_from(self, src)`; false when the type is not `Clone`
    pub fn clone_from(&mut self, src: &Obj) -> bool {
        match (self, src) {
            (Obj::Bm(a, _), Obj::Bm(b, _)) => a.clone_from_obj(b.as_ref()),
            (Obj::Core(a), Obj::Core(b)) => a.clone_from_obj(b.as_ref()),
            (Obj::Stream(a), Obj::Stream(b)) => a.clone_from_obj(b.as_ref()),
            (Obj::Buf(a), Obj::Buf(b)) => a.clone_from_obj(b.as_ref()),
            _ => false,
        }
    }
    pub fn debug(&self) -> String {
        match self {
            Obj::Bm(b, _) => b.debug(),
            Obj::Core(c) => c.debug(),
            Obj::Stream(s) => s.debug(),
            Obj::Buf(b) => b.debug(),
        }
    }
    /// (bytes after drop, bytes before drop) of the object's own storage
    pub fn drop_scan(self) -> (Vec<u8>, Vec<u8>) {
        match self {
            Obj::Bm(b, _) => b.drop_scan(),
            Obj::Core(c) => c.drop_scan(),
            Obj::Stream(s) => s.drop_scan(),
            Obj::Buf(b) => b.drop_scan(),
        }
    }
    /// Byte strings that must not survive a drop (zeroize build), computed from public observations
    /// and the reference cipher: exported state, its encryption (internal feedback of CFB), the next
    /// keystream block, counter values.
    pub fn secrets(&mut self, cfg: &Cfg, w: &Which, key: &[u8], iv0: &[u8]) -> Vec<(String, Vec<u8>)> {
        let c = rf::Ciph::new(cfg, key);
        let bs = cfg.bs;
        let mut v: Vec<(String, Vec<u8>)> = vec![("initial IV".into(), iv0.to_vec())];
        let halves = |name: &str, s: &[u8], v: &mut Vec<(String, Vec<u8>)>| {
            for (i, ch) in s.chunks(bs).enumerate() {
                v.push((format!("{name}[{i}]"), ch.to_vec()));
                if ch.len() == bs {
                    v.push((format!("E({name}[{i}])"), c.e(ch)));
                }
            }
        };
        match self {
            Obj::Bm(b, _) => {
                let st = b.iv_state();
                halves("iv_state", &st, &mut v);
            }
            Obj::Buf(b) => {
                let (blk, _) = b.get_state();
                v.push(("get_state block".into(), blk));
            }
            Obj::Core(core) => {
                let st = core.iv_state();
                halves("iv_state", &st, &mut v);
                core_secrets(w, &st, core.get_block_pos(), &c, iv0, &mut v);
            }
            Obj::Stream(s) => {
                let st = s.core_iv_state();
                halves("core iv_state", &st, &mut v);
                core_secrets(w, &st, s.core_block_pos(), &c, iv0, &mut v);
                // unconsumed keystream bytes in the wrapper's buffer
                let d = match w {
                    Which::Stream(d) => *d,
                    _ => unreachable!(),
                };
                match s.pos(SeekTy::U128) {
                    Some(Ok(p)) => {
                        let (block, byte) = (p / bs as u128, (p % bs as u128) as usize);
                        if byte != 0 {
                            let ks = if d.mode == "belt" { rf::belt_ks(&c, iv0, block, byte, bs - byte) } else { rf::ctr_ks(&c, iv0, d.w, d.be, block, byte, bs - byte) };
                            v.push(("unconsumed keystream in the buffer".into(), ks));
                        }
                    }
                    _ => {
                        // not seekable (OFB): a copy tells which bytes come next; the buffer holds them up to the block end
                        if let Some(mut dcopy) = s.dup() {
                            let mut ks = vec![0u8; bs];
                            let _ = dcopy.apply(Kind::InPlace, &[], &mut ks);
                            v.push(("next keystream bytes".into(), ks));
                        }
                    }
                }
            }
        }
        v
    }
}
fn core_secrets(w: &Which, iv_state: &[u8], block_pos: Option<u128>, c: &rf::Ciph, iv0: &[u8], v: &mut Vec<(String, Vec<u8>)>) {
    let d = match w {
        Which::Core(d) | Which::Stream(d) => *d,
        _ => return,
    };
    if d.mode.starts_with("ctr") {
        let n = (d.w / 8) as usize;
        // nonce chunks are held as native integers (same bytes); the counter chunk of a BE flavour is held byte-reversed
        for (i, ch) in iv0.chunks(n).enumerate() {
            let mut r = ch.to_vec();
            r.reverse();
            v.push((format!("IV chunk {i} as integer"), r));
        }
        for (i, ch) in iv_state.chunks(n).enumerate() {
            let mut r = ch.to_vec();
            r.reverse();
            v.push((format!("iv_state chunk {i} as integer"), r));
        }
        if let Some(bp) = block_pos {
            v.push(("counter value".into(), bp.to_le_bytes()[..n].to_vec()));
        }
    } else if d.mode == "belt" {
        let s0 = rf::belt_s0(c, iv0);
        v.push(("s_init = E(IV)".into(), s0.clone()));
        if let Some(bp) = block_pos {
            v.push(("s = s_init + blocks".into(), rf::le_add(&s0, bp)));
        }
    }
}
/// every object kind of a configuration
pub fn all_kinds(cfg: &Cfg) -> Vec<Which<'_>> {
    let mut v = vec![];
    for d in &cfg.block_modes {
        v.push(Which::Bm(d));
    }
    for d in &cfg.cores {
        v.push(Which::Core(d));
        v.push(Which::Stream(d));
    }
    for d in &cfg.bufcfb {
        v.push(Which::Buf(d));
    }
    v
}
