//! Merged (stateful) breadth-first search over action histories of a machine that drives the real
//! code.  States are restored by replaying the history on fresh real objects (the subject is
//! deterministic; C16 establishes that independently), so no object is ever copied by the engine and
//! every explored transition is one complete, replayable history.
use crate::ctx::*;
use std::collections::HashMap;
use std::fmt::Debug;

pub trait Machine {
    type Act: Clone + Debug;
    /// actions enabled after `hist` (a small finite menu; ordered simplest first)
    fn actions(&self, hist: &[Self::Act]) -> Vec<Self::Act>;
    /// Execute `hist` on fresh real objects in lockstep with the reference, checking every step.
    /// Ok(Some(key)) = canonical key of the state reached; Ok(None) = history not applicable (pruned).
    fn run(&self, hist: &[Self::Act]) -> Result<Option<Vec<u8>>, Fail>;
    /// part of the key that must determine the rest ("amount of input consumed"): the singleton invariant
    fn confluence_class(&self, _key: &[u8]) -> Option<Vec<u8>> {
        None
    }
    /// the part of the key that must be the same for every state of one confluence class (default: all of it).
    /// Machines whose keys carry a history tag (number of cuts so far ...) so that states reached through an
    /// export/import are expanded in their own right exclude the tag here.
    fn confluence_value<'k>(&self, key: &'k [u8]) -> &'k [u8] {
        key
    }
}

pub struct BfsStats {
    /// every canonical key found (for cross-checks against an independent enumeration of the reference model)
    pub keys: Vec<Vec<u8>>,
    pub states: u64,
    pub transitions: u64,
    pub depth_completed: usize,
    pub dedup_hits: u64,
    pub pruned: u64,
    pub capped: bool,
}

pub fn bfs<M: Machine>(m: &M, rep: &mut Report, max_depth: usize, max_states: usize, ctx_cap: &dyn Fn() -> bool) -> BfsStats {
    let mut st = BfsStats { keys: vec![], states: 0, transitions: 0, depth_completed: 0, dedup_hits: 0, pruned: 0, capped: false };
    let mut seen: HashMap<Vec<u8>, Vec<M::Act>> = HashMap::new();
    let mut classes: HashMap<Vec<u8>, (Vec<u8>, Vec<M::Act>)> = HashMap::new();
    let mut frontier: Vec<Vec<M::Act>> = vec![];
    // initial state
    let h0: Vec<M::Act> = vec![];
    match caught(&|| m.run(&h0)) {
        Ok(k) => {
            if let Some(k) = k {
                if let Some(c) = m.confluence_class(&k) {
                    classes.insert(c, (k.clone(), h0.clone()));
                }
                seen.insert(k, h0.clone());
                frontier.push(h0);
                st.states = 1;
            }
        }
        Err(_) => {
            rep.case(|| m.run(&h0).map(|_| ()));
        }
    }
    for depth in 0..max_depth {
        let mut next: Vec<Vec<M::Act>> = vec![];
        for hist in &frontier {
            for act in m.actions(hist) {
                if st.states as usize >= max_states || ctx_cap() {
                    st.capped = true;
                    rep.capped = true;
                    rep.states += st.states;
                    return st;
                }
                let mut h2 = hist.clone();
                h2.push(act);
                st.transitions += 1;
                rep.cases += 1;
                let key: Option<Vec<u8>> = match caught(&|| m.run(&h2)) {
                    Err(_) => {
                        // confirm (twice, recorded) and register; do not expand a violating branch
                        rep.cases -= 1;
                        rep.case(|| m.run(&h2).map(|_| ()));
                        continue;
                    }
                    Ok(k) => k,
                };
                let Some(key) = key else {
                    st.pruned += 1;
                    continue;
                };
                if let Some(c) = m.confluence_class(&key) {
                    if let Some((k0, h0)) = classes.get(&c) {
                        if m.confluence_value(k0) != m.confluence_value(&key) {
                            let (k0, h0) = (k0.clone(), h0.clone());
                            rep.cases -= 1;
                            rep.case(|| {
                                // both histories are re-executed so that the recorded trace contains them
                                let a = m.run(&h0)?;
                                let b = m.run(&h2)?;
                                if a.as_deref().map(|k| m.confluence_value(k)) != b.as_deref().map(|k| m.confluence_value(k)) {
                                    return fail("confluence", format!("two histories that consumed the same input reach different canonical states: {:?} -> {} vs {:?} -> {}", h0, crate::util::short(&k0), h2, crate::util::short(b.as_deref().unwrap_or(&[]))));
                                }
                                Ok(())
                            });
                            continue;
                        }
                    } else {
                        classes.insert(c, (key.clone(), h2.clone()));
                    }
                }
                rep.outcome(&key);
                if seen.contains_key(&key) {
                    st.dedup_hits += 1;
                } else {
                    seen.insert(key, h2.clone());
                    st.states += 1;
                    next.push(h2);
                }
            }
        }
        st.depth_completed = depth + 1;
        if next.is_empty() {
            break;
        }
        frontier = next;
    }
    rep.states += st.states;
    st.keys = seen.into_keys().collect();
    st
}
