//! Run context, per-thread reports, violation handling (confirm twice, record, fingerprint),
//! parallel map over independent units, evidence assembly.
use crate::rec::{self, Op};
use base::api::*;
use base::json::{J, obj};
use std::collections::BTreeMap;
use std::panic::{AssertUnwindSafe, catch_unwind};
use std::sync::Mutex;
use std::sync::atomic::{AtomicUsize, Ordering};
use std::time::Instant;

#[derive(Clone, Copy, PartialEq, Eq, Debug)]
pub enum Tier {
    Quick,
    Thorough,
}
impl Tier {
    pub fn s(self) -> &'static str {
        match self {
            Tier::Quick => "quick",
            Tier::Thorough => "thorough",
        }
    }
    pub fn pick<T>(self, q: T, t: T) -> T {
        match self {
            Tier::Quick => q,
            Tier::Thorough => t,
        }
    }
}

pub struct Ctx<'a> {
    pub reg: &'a Registry,
    pub tier: Tier,
    pub seed: u64,
    pub prop: String,
    pub started: Instant,
    /// soft wall-clock cap for the exploration (seconds); engines stop expanding when exceeded and report it
    pub cap_s: f64,
}
impl<'a> Ctx<'a> {
    /// configurations of the tier's set
    pub fn cfgs(&self) -> Vec<&'a Cfg> {
        let tag = match self.tier {
            Tier::Quick => 'q',
            Tier::Thorough => 't',
        };
        let mut v: Vec<&Cfg> = self.reg.cfgs.iter().filter(|c| c.sets.contains(tag)).collect();
        if v.is_empty() {
            // a quick binary asked for the thorough tier (or vice versa): fall back to what is there
            v = self.reg.cfgs.iter().filter(|c| c.sets.contains('q') || c.sets.contains('t')).collect();
        }
        v
    }
    /// thorough tier: the tier's set plus the all-sizes sweep (every block size 1..=255, width 2)
    pub fn cfgs_with_sweep(&self) -> Vec<&'a Cfg> {
        let mut v = self.cfgs();
        if self.tier == Tier::Thorough {
            v.extend(self.reg.cfgs.iter().filter(|c| c.sets.contains('s')));
        }
        v
    }
    pub fn toy_cfgs(&self) -> Vec<&'a Cfg> {
        self.cfgs().into_iter().filter(|c| c.is_toy()).collect()
    }
    pub fn over_cap(&self) -> bool {
        self.started.elapsed().as_secs_f64() > self.cap_s
    }
}

#[derive(Clone, Debug)]
pub struct Fail {
    /// fingerprint tail: invariant/mode/shape — must not contain configuration or data values
    pub fp: String,
    pub msg: String,
}
pub type CaseResult = Result<(), Fail>;
pub fn fail<T>(fp: impl Into<String>, msg: impl Into<String>) -> Result<T, Fail> {
    Err(Fail { fp: fp.into(), msg: msg.into() })
}
#[macro_export]
macro_rules! ensure {
    ($cond:expr, $fp:expr, $($msg:tt)*) => {
        if !($cond) {
            return Err($crate::ctx::Fail { fp: ($fp).to_string(), msg: format!($($msg)*) });
        }
    };
}

#[derive(Clone, Debug)]
pub struct Violation {
    pub fp: String,
    pub msg: String,
    pub unit: String,
    pub trace: Vec<Op>,
    pub deterministic: bool,
    pub count: u64,
}

#[derive(Default)]
pub struct Report {
    pub unit: String,
    /// complete histories / cases executed
    pub cases: u64,
    /// distinct canonical states (BFS) — engines add to this
    pub states: u64,
    pub transitions: u64,
    pub violations: BTreeMap<String, Violation>,
    pub samples: Vec<J>,
    pub counters: BTreeMap<String, u64>,
    pub outcomes: std::collections::BTreeSet<u64>,
    pub notes: Vec<String>,
    pub capped: bool,
    pub machinery_errors: Vec<String>,
    t0: u64,
}

thread_local! {
    static PANIC_MSG: std::cell::RefCell<String> = const { std::cell::RefCell::new(String::new()) };
}
pub fn install_panic_hook() {
    std::panic::set_hook(Box::new(|info| {
        let loc = info.location().map(|l| format!("{}:{}", l.file(), l.line())).unwrap_or_default();
        let msg = if let Some(s) = info.payload().downcast_ref::<&str>() {
            s.to_string()
        } else if let Some(s) = info.payload().downcast_ref::<String>() {
            s.clone()
        } else {
            "panic".to_string()
        };
        PANIC_MSG.with(|p| *p.borrow_mut() = format!("{msg} @ {loc}"));
    }));
}
pub fn last_panic() -> String {
    PANIC_MSG.with(|p| p.borrow().clone())
}
/// strip line numbers / values so that one defect gives one fingerprint
fn panic_fp(msg: &str) -> String {
    let loc = msg.rsplit(" @ ").next().unwrap_or("");
    let comps: Vec<&str> = loc.split('/').collect();
    let file = comps.last().map(|f| f.split(':').next().unwrap_or(f)).unwrap_or("");
    let krate = if let Some(i) = comps.iter().position(|c| *c == "repo") {
        comps.get(i + 1).copied().unwrap_or("")
    } else if let Some(i) = comps.iter().position(|c| *c == "src") {
        // registry/src/<index>/<crate-version>/src/...
        if i >= 1 { comps[i - 1] } else { "" }
    } else {
        ""
    };
    format!("panic/{krate}/{file}")
}

impl Report {
    pub fn new(unit: impl Into<String>) -> Self {
        Report { unit: unit.into(), t0: rec::transitions(), ..Default::default() }
    }
    pub fn count(&mut self, k: &str, n: u64) {
        *self.counters.entry(k.to_string()).or_insert(0) += n;
    }
    pub fn outcome(&mut self, bytes: &[u8]) {
        if self.outcomes.len() < 100_000 {
            self.outcomes.insert(fnv(bytes));
        }
    }
    pub fn sample(&mut self, j: J) {
        if self.samples.len() < 3 {
            self.samples.push(j);
        }
    }
    /// Run one case (a complete history).  A panic in the subject is a failure of the case.
    /// `f` must be re-runnable: on failure it is executed twice more with recording on.
    pub fn case<F: Fn() -> CaseResult>(&mut self, f: F) -> bool {
        self.cases += 1;
        let r = run_caught(&f);
        match r {
            Ok(()) => true,
            Err(fl) => {
                self.on_fail(fl, &f);
                false
            }
        }
    }
    fn on_fail<F: Fn() -> CaseResult>(&mut self, fl: Fail, f: &F) {
        if let Some(v) = self.violations.get_mut(&fl.fp) {
            v.count += 1;
            return;
        }
        if self.violations.len() >= 40 {
            self.count("violations_beyond_cap", 1);
            return;
        }
        // confirm: replay the same history twice with recording on; observations must be identical
        rec::trace_start();
        let r1 = run_caught(f);
        let t1 = rec::trace_take();
        rec::trace_start();
        let r2 = run_caught(f);
        let t2 = rec::trace_take();
        let same = t1 == t2 && r1.as_ref().err().map(|e| (&e.fp, &e.msg)) == r2.as_ref().err().map(|e| (&e.fp, &e.msg)) && r1.is_err();
        if !same {
            self.machinery_errors.push(format!(
                "non-deterministic failure in unit {}: first run {:?}, replays {:?} / {:?}",
                self.unit,
                fl,
                r1.err(),
                r2.err()
            ));
            return;
        }
        self.violations.insert(fl.fp.clone(), Violation { fp: fl.fp, msg: fl.msg, unit: self.unit.clone(), trace: t1, deterministic: true, count: 1 });
    }
    pub fn finish(mut self) -> Self {
        self.transitions = rec::transitions() - self.t0;
        self
    }
}
pub fn run_caught<F: Fn() -> CaseResult>(f: &F) -> CaseResult {
    caught(f)
}
/// run `f`, turning a panic of the subject into a failure (and a panic of the harness into MACHINERY)
pub fn caught<T, F: Fn() -> Result<T, Fail>>(f: &F) -> Result<T, Fail> {
    match catch_unwind(AssertUnwindSafe(f)) {
        Ok(r) => r,
        Err(_) => {
            let m = last_panic();
            let loc = m.rsplit(" @ ").next().unwrap_or("");
            let in_harness = ["checks/", "base/", "sut/", "cfgs/", "bins/"].iter().any(|p| loc.starts_with(p)) || loc.contains("/verif/");
            if m.contains("harness:") || m.contains("adapter:") || (in_harness && !m.starts_with("toy:")) {
                // a bug in the harness itself must never be reported as a verdict
                return Err(Fail { fp: "MACHINERY".into(), msg: m });
            }
            Err(Fail { fp: panic_fp(&m), msg: format!("panicked: {m}") })
        }
    }
}
pub fn fnv(b: &[u8]) -> u64 {
    let mut h: u64 = 0xcbf29ce484222325;
    for &x in b {
        h ^= x as u64;
        h = h.wrapping_mul(0x100000001b3);
    }
    h
}

/// Run `f` over all units on all cores; results come back in unit order (deterministic merge).
pub fn par_map<U: Sync, F: Fn(&U) -> Report + Sync>(units: &[U], f: F) -> Vec<Report> {
    let n = units.len();
    let next = AtomicUsize::new(0);
    let results: Mutex<Vec<Option<Report>>> = Mutex::new((0..n).map(|_| None).collect());
    let threads = std::thread::available_parallelism().map(|v| v.get()).unwrap_or(4).min(n.max(1));
    std::thread::scope(|s| {
        for _ in 0..threads {
            s.spawn(|| {
                loop {
                    let i = next.fetch_add(1, Ordering::Relaxed);
                    if i >= n {
                        break;
                    }
                    let t_unit = Instant::now();
                    let r = match catch_unwind(AssertUnwindSafe(|| f(&units[i]))) {
                        Ok(r) => r,
                        Err(_) => {
                            let mut r = Report::new(format!("unit#{i}"));
                            r.machinery_errors.push(format!("harness panic outside a case: {}", last_panic()));
                            r
                        }
                    };
                    if std::env::var_os("VERIF_UNIT_TIMES").is_some() && t_unit.elapsed().as_secs_f64() > 1.0 {
                        eprintln!("[unit] {:.1}s {}", t_unit.elapsed().as_secs_f64(), r.unit);
                    }
                    results.lock().unwrap()[i] = Some(r);
                }
            });
        }
    });
    results.into_inner().unwrap().into_iter().map(|r| r.unwrap()).collect()
}

/// Merged result of a check.
pub struct Outcome {
    pub cases: u64,
    pub states: u64,
    pub transitions: u64,
    pub violations: Vec<Violation>,
    pub samples: Vec<J>,
    pub counters: BTreeMap<String, u64>,
    pub distinct_outcomes: usize,
    pub notes: Vec<String>,
    pub capped: bool,
    pub machinery_errors: Vec<String>,
    pub units: usize,
    /// check-specific description
    pub bounds: Vec<(String, J)>,
    pub rule: String,
    pub assumptions: Vec<String>,
    pub configs: Vec<String>,
}
pub fn merge(reports: Vec<Report>) -> Outcome {
    let mut o = Outcome {
        cases: 0,
        states: 0,
        transitions: 0,
        violations: vec![],
        samples: vec![],
        counters: BTreeMap::new(),
        distinct_outcomes: 0,
        notes: vec![],
        capped: false,
        machinery_errors: vec![],
        units: reports.len(),
        bounds: vec![],
        rule: String::new(),
        assumptions: vec![],
        configs: vec![],
    };
    let mut outcomes = std::collections::BTreeSet::new();
    let mut viol: BTreeMap<String, Violation> = BTreeMap::new();
    for r in reports {
        o.cases += r.cases;
        o.states += r.states;
        o.transitions += r.transitions;
        for (k, v) in r.counters {
            *o.counters.entry(k).or_insert(0) += v;
        }
        for s in r.samples {
            if o.samples.len() < 4 {
                o.samples.push(s);
            }
        }
        outcomes.extend(r.outcomes);
        o.notes.extend(r.notes);
        o.capped |= r.capped;
        o.machinery_errors.extend(r.machinery_errors);
        for (k, v) in r.violations {
            match viol.get_mut(&k) {
                Some(e) => e.count += v.count,
                None => {
                    viol.insert(k, v);
                }
            }
        }
    }
    o.notes.sort();
    o.notes.dedup();
    o.distinct_outcomes = outcomes.len();
    o.violations = viol.into_values().collect();
    o
}
pub fn extend(a: &mut Outcome, b: Outcome) {
    a.cases += b.cases;
    a.states += b.states;
    a.transitions += b.transitions;
    for v in b.violations {
        if let Some(e) = a.violations.iter_mut().find(|e| e.fp == v.fp) {
            e.count += v.count;
        } else {
            a.violations.push(v);
        }
    }
    for s in b.samples {
        if a.samples.len() < 6 {
            a.samples.push(s);
        }
    }
    for (k, v) in b.counters {
        *a.counters.entry(k).or_insert(0) += v;
    }
    a.distinct_outcomes += b.distinct_outcomes;
    a.notes.extend(b.notes);
    a.capped |= b.capped;
    a.machinery_errors.extend(b.machinery_errors);
    a.units += b.units;
    a.bounds.extend(b.bounds);
}

pub fn jobj(items: Vec<(&str, J)>) -> J {
    obj(items)
}

// ---------------------------------------------------------------------------------------------
// data alphabets (VERIF_SEED only chooses byte values, never structure)

pub fn splitmix(mut z: u64) -> u64 {
    z = z.wrapping_add(0x9e3779b97f4a7c15);
    z = (z ^ (z >> 30)).wrapping_mul(0xbf58476d1ce4e5b9);
    z = (z ^ (z >> 27)).wrapping_mul(0x94d049bb133111eb);
    z ^ (z >> 31)
}
/// `len` pattern bytes for (seed, tag); consecutive bytes are pairwise distinct within any 256 window
pub fn pattern(seed: u64, tag: u64, len: usize) -> Vec<u8> {
    let h = splitmix(seed ^ splitmix(tag));
    let start = h as u8;
    let step = ((h >> 8) as u8) | 1; // odd step: a permutation of 0..=255
    (0..len).map(|i| start.wrapping_add(step.wrapping_mul(i as u8)) ^ ((i / 256) as u8).wrapping_mul(0x1d)).collect()
}
/// data alphabet: all-zero, all-0xFF, pattern
pub fn data_variants(seed: u64, tag: u64, len: usize) -> Vec<(&'static str, Vec<u8>)> {
    vec![("zero", vec![0u8; len]), ("ff", vec![0xffu8; len]), ("pat", pattern(seed, tag, len))]
}
pub fn iv_variants(seed: u64, len: usize) -> Vec<(&'static str, Vec<u8>)> {
    vec![("zero", vec![0u8; len]), ("ff", vec![0xffu8; len]), ("pat", pattern(seed, 0x1717, len))]
}
/// quick tier, large blocks: one IV / data pattern instead of three (the shapes explored stay the same)
pub fn light(cfg: &Cfg, tier: Tier) -> usize {
    if tier == Tier::Quick && cfg.bs >= 48 { 2 } else { 0 }
}
pub fn keys(seed: u64, len: usize) -> Vec<Vec<u8>> {
    vec![pattern(seed, 0xA11CE, len), pattern(seed, 0xB0B, len)]
}
/// Overwrite the part of this thread's stack that the next calls will use (192 KiB below the current frame) with zeros.
/// Bytes of an object that no field owns (padding, the payload of an `Option` that is `None`) are copied from whatever
/// the stack held; after a scrub that content is a function of the history executed since, not of what the harness
/// did before, so two executions of one history see the same residue.
#[inline(never)]
pub fn scrub_stack() {
    let mut a = [0u8; 192 * 1024];
    for i in (0..a.len()).step_by(64) {
        // SAFETY-free volatile-like write: black_box keeps the stores
        a[i] = std::hint::black_box(0);
    }
    for b in a.iter_mut() {
        *b = 0;
    }
    std::hint::black_box(&mut a);
}
/// a dirty output buffer
pub fn dirty(len: usize) -> Vec<u8> {
    (0..len).map(|i| 0xA5u8 ^ (i as u8).wrapping_mul(7)).collect()
}
