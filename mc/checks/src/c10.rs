//! C10 — seeking and position reporting are coherent with the keystream (CTR flavours, BelT-CTR).
use crate::bfs;
use crate::ensure;
use crate::ctx::*;
use crate::seekm::*;
use crate::util::*;
use base::api::*;
use base::json::J;
use base::refmodel as rf;

/// byte-position alphabet: block edges, integer-type edges, counter-width edges, the end of the keystream
pub fn position_alphabet(bs: usize, par: usize, w: u32, belt: bool) -> Vec<u128> {
    let b = bs as u128;
    let mut v: Vec<u128> = vec![0, 1, b - 1, b, b + 1, 2 * b - 1, 2 * b, 3 * b + b / 2, (par as u128 + 1) * b + 1, (1 << 31) - 1, 1 << 31, (1 << 32) - 1, 1 << 32, (1 << 32) + 1, (1u128 << 32) * b - 1, (1u128 << 32) * b, (1u128 << 32) * b + 1, (1u128 << 64) - 1, 1u128 << 64, (1u128 << 64) + 1];
    let lim = rf::ctr_limit_blocks(w);
    if let Some(end) = lim.checked_mul(b) {
        // END = limit * bs is representable: add the neighbourhood of the end
        for d in [2 * b + 1, b + 1, b, 1, 0] {
            v.push(end - d);
        }
        v.retain(|p| *p <= end);
    } else {
        v.push(u128::MAX - b);
        v.push(u128::MAX);
    }
    let _ = belt;
    v.sort();
    v.dedup();
    v
}

pub fn run(ctx: &Ctx) -> Outcome {
    let cfgs = ctx.cfgs();
    let tier = ctx.tier;
    let seed = ctx.seed;
    let units: Vec<(&Cfg, &CoreDesc)> = cfgs.iter().flat_map(|c| c.cores.iter().filter(|d| d.seekable).map(move |d| (*c, d))).collect();
    let reports = par_map(&units, |(cfg, d)| {
        let mut rep = Report::new(format!("{}/{}", cfg.name, d.mode));
        let bs = cfg.bs;
        let par = par_of(cfg);
        let key = &keys(seed, cfg.key_len)[0];
        let data = pattern(seed, 0xC10, (2 * par + 2) * bs + 8);
        let positions = position_alphabet(bs, par, d.w, d.mode == "belt");
        let mut seeks = vec![];
        for &p in &positions {
            for t in SEEK_TYS {
                if p <= t.max() {
                    seeks.push((t, p));
                }
            }
        }
        let mut lens = vec![0, 1, bs - 1, bs, bs + 1, 2 * bs + 3, (2 * par + 1) * bs];
        lens.sort();
        lens.dedup();
        let applies: Vec<(usize, Kind)> = lens.iter().flat_map(|&n| [(n, Kind::InPlace), (n, Kind::B2b)]).collect();
        let depth = tier.pick(3, 4);
        let mut ivs: Vec<(String, Vec<u8>)> = iv_variants(seed, bs).into_iter().skip(1).map(|(n, v)| (n.to_string(), v)).collect();
        if d.mode == "belt" {
            // s_0 = E(IV) a few blocks before the 2^128 wrap: positions and seeks on both sides of it
            let c = rf::Ciph::new(cfg, key);
            for j in [0u128, 2, par as u128 + 1] {
                ivs.push((format!("E(IV)=2^128-1-{j}"), c.d(&(u128::MAX - j).to_le_bytes())));
            }
        }
        for (ivn, iv) in ivs {
            let m = SeekMachine { cfg, d, key, iv: &iv, data: &data, init: Init::Fresh, seeks: seeks.clone(), applies: applies.clone(), check_log: true };
            let st = bfs::bfs(&m, &mut rep, depth, tier.pick(4_000, 60_000), &|| ctx.over_cap());
            // completeness cross-check of the explorer against an independent enumeration of the reference model
            if rep.violations.is_empty() && !st.capped {
                let model = m.model_reachable(depth);
                let found = SeekMachine::positions_of_keys(&st.keys);
                rep.count("model_states_cross_checked", model.len() as u64);
                if model != found {
                    rep.machinery_errors.push(format!("explorer completeness cross-check failed for {} {}: the reference model reaches {} positions, the explorer found {} (first difference: {:?})", cfg.name, d.mode, model.len(), found.len(), model.symmetric_difference(&found).next()));
                }
            }
            rep.count("bfs_states", st.states);
            rep.count("bfs_transitions", st.transitions);
            rep.count("bfs_dedup_hits", st.dedup_hits);
            rep.count("bfs_pruned", st.pruned);
            if st.capped {
                rep.notes.push(format!("state cap reached for {} {} iv={}: depth {} completed", cfg.name, d.mode, ivn, st.depth_completed));
            }
        }
        rep.sample(case_json(vec![("type", format!("StreamCipherCoreWrapper<{}>", d.ty).into()), ("positions", J::Arr(positions.iter().map(|p| J::Str(p.to_string())).collect())), ("lengths", J::Arr(lens.iter().map(|l| (*l).into()).collect())), ("seek_types", J::Arr(SEEK_TYS.iter().map(|t| t.s().into()).collect())), ("example_history", hs(&[SAct::Seek(SeekTy::U64, positions[positions.len() / 2]), SAct::Apply(bs + 1, Kind::B2b), SAct::Seek(SeekTy::I32, 1)]).into())]));
        rep.finish()
    });
    // ---- core level: set_block_pos, then every core call form must produce the keystream OF that position ----
    let rcore = par_map(&units, |(cfg, d)| {
        let mut rep = Report::new(format!("{}/{}/core-after-set_block_pos", cfg.name, d.mode));
        let bs = cfg.bs;
        let par = par_of(cfg);
        let key = &keys(seed, cfg.key_len)[0];
        let c = rf::Ciph::new(cfg, key);
        let iv = pattern(seed, 0x1717, bs);
        let limit = rf::ctr_limit_blocks(d.w);
        let nmax = 2 * par + 2;
        let data = pattern(seed, 0xC10C, nmax * bs);
        let mut poss: Vec<u128> = vec![0, 1, par as u128, par as u128 + 1, 255, 256, (1 << 16) - 1];
        for b in [(1u128 << 32) - 1, 1u128 << 32, (1u128 << 64) - 1, 1u128 << 64] {
            poss.push(b);
        }
        poss.retain(|p| p.checked_add(nmax as u128 + 1).map(|e| e < limit).unwrap_or(false));
        let mut counts = vec![1usize, 2, par, par + 1, 2 * par + 1];
        counts.sort();
        counts.dedup();
        for &p in &poss {
            for &n in &counts {
                let ks = if d.mode == "belt" { rf::belt_ks(&c, &iv, p, 0, n * bs) } else { rf::ctr_ks(&c, &iv, d.w, d.be, p, 0, n * bs) };
                let want = rf::x(&data[..n * bs], &ks);
                // forms: 0..3 apply_keystream_blocks (four kinds), 4 write_keystream_blocks, 5 single-block calls, 6 write_keystream_block
                // calls, 7.. caller-supplied closures; each also after a first block generated elsewhere (seek AWAY then back)
                for form in 0..10 {
                    for detour in [false, true] {
                        rep.case(|| {
                            let mut core = crate::rec::core(cfg, d, key, &iv);
                            if detour {
                                ensure!(core.set_block_pos(p + 3), "MACHINERY", "harness: position fits");
                                let mut one = dirty(bs);
                                core.write_block(&mut one);
                            }
                            ensure!(core.set_block_pos(p), "MACHINERY", "harness: position fits");
                            ensure!(core.get_block_pos() == Some(p), format!("position_wrong/{}/core", d.mode), "{}: get_block_pos() right after set_block_pos({}) is {:?}", d.ty, p, core.get_block_pos());
                            let mut out = data[..n * bs].to_vec();
                            let mut ksb = dirty(n * bs);
                            match form {
                                0..=3 => {
                                    let k = KINDS[form];
                                    let inp = out.clone();
                                    if !k.in_place() {
                                        out = dirty(n * bs);
                                    }
                                    let _ = core.apply_blocks(k, &inp, &mut out);
                                }
                                4 => {
                                    core.write_blocks(&mut ksb);
                                    out = rf::x(&out, &ksb);
                                }
                                5 => {
                                    for b in out.chunks_mut(bs) {
                                        core.apply_block(Kind::InPlace, &[], b);
                                    }
                                }
                                6 => {
                                    for b in ksb.chunks_mut(bs) {
                                        core.write_block(b);
                                    }
                                    out = rf::x(&out, &ksb);
                                }
                                f => {
                                    core.write_blocks_closure([1u8, 2, 6][f - 7], &mut ksb);
                                    out = rf::x(&out, &ksb);
                                }
                            }
                            ensure!(out == want, format!("keystream_wrong/{}/core", d.mode), "{}: set_block_pos({}){} then {} blocks through core form {}: {} want the keystream of blocks {}.. = {} (first diff at byte {:?})", d.ty, p, if detour { " (after a block generated at another position)" } else { "" }, n, form, short(&out), p, short(&want), first_diff(&out, &want));
                            ensure!(core.get_block_pos() == Some(p + n as u128), format!("position_wrong/{}/core", d.mode), "{}: get_block_pos() after set_block_pos({}) and {} blocks is {:?}", d.ty, p, n, core.get_block_pos());
                            Ok(())
                        });
                    }
                }
            }
        }
        rep.finish()
    });
    let mut o = merge(reports);
    extend(&mut o, merge(rcore));
    o.rule = "merged BFS per seekable byte-level cipher (six CTR aliases, BeltCtr) from the initial state and every state reached: actions {try_seek::<T>(p) for T in i32,u32,u64,u128,usize and p in the boundary alphabet (block edges, 2^31, 2^32, 2^32*bs, 2^64, END-k) representable in T; try_apply_keystream / apply_keystream_b2b of n bytes for n in {0,1,bs-1,bs,bs+1,2bs+3,(2PAR+1)bs}}; on every transition: bytes = reference keystream at the reference position; try_current_pos::<T>() for all five T is Ok(exact) or Err only when the value (or, tolerated and counted, the end of its block) does not fit T; get_block_pos and remaining_blocks exact; a seek whose block index does not fit the counter returns Err and leaves the state unchanged; counter blocks fed to the harness cipher equal layout(IV, index) in order".into();
    o.configs = cfgs.iter().map(|c| c.name.clone()).collect();
    o.bounds = vec![("depth".into(), J::Int(tier.pick(3, 4))), ("ivs".into(), J::Int(2)), ("state_cap_per_machine".into(), J::Int(tier.pick(4_000, 60_000)))];
    o.assumptions = vec!["positions are non-negative; for the 128-bit flavours and BelT the byte positions reachable through u128 seeks end far below the keystream end (C11 reaches it through set_block_pos + from_core)".into(), "try_current_pos may return Err when only the rounded-up block boundary overflows T (cipher crate arithmetic); tolerated and counted".into()];
    o
}
