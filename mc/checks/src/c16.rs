//! C16 — clones and separate instances are independent, deterministic values.
use crate::ctx::*;
use crate::ensure;
use crate::inst::*;
use crate::rec;
use crate::util::*;
use base::api::*;
use base::json::J;

/// all sequences over 0..n_ops of length <= max_len, shortest first
fn histories(n_ops: usize, max_len: usize) -> Vec<Vec<usize>> {
    let mut out: Vec<Vec<usize>> = vec![vec![]];
    let mut last: Vec<Vec<usize>> = vec![vec![]];
    for _ in 0..max_len {
        let mut next = vec![];
        for h in &last {
            for o in 0..n_ops {
                let mut h2 = h.clone();
                h2.push(o);
                next.push(h2);
            }
        }
        out.extend(next.iter().cloned());
        last = next;
    }
    out
}
/// all interleavings of a ops on handle 0 and b ops on handle 1 (as sequences of handle ids)
fn shuffles(a: usize, b: usize) -> Vec<Vec<u8>> {
    fn go(a: usize, b: usize, cur: &mut Vec<u8>, out: &mut Vec<Vec<u8>>) {
        if a == 0 && b == 0 {
            out.push(cur.clone());
            return;
        }
        if a > 0 {
            cur.push(0);
            go(a - 1, b, cur, out);
            cur.pop();
        }
        if b > 0 {
            cur.push(1);
            go(a, b - 1, cur, out);
            cur.pop();
        }
    }
    let mut out = vec![];
    go(a, b, &mut vec![], &mut out);
    out
}

fn solo(cfg: &Cfg, w: &Which, key: &[u8], iv: &[u8], data: &[u8], h: &[usize]) -> Vec<Vec<u8>> {
    let mut o = w.make(cfg, key, iv);
    h.iter().map(|&op| o.op(cfg, op, data)).collect()
}

pub fn run(ctx: &Ctx) -> Outcome {
    let cfgs = ctx.cfgs();
    let tier = ctx.tier;
    let seed = ctx.seed;
    let units: Vec<(&Cfg, usize)> = cfgs.iter().flat_map(|c| (0..all_kinds(c).len()).map(move |i| (*c, i))).collect();
    let reports = par_map(&units, |(cfg, wi)| {
        let w = all_kinds(cfg)[*wi];
        let mut rep = Report::new(format!("{}/{}", cfg.name, w.label()));
        let keys = keys(seed, cfg.key_len);
        let iv = pattern(seed, 0x1717, w.iv_len(cfg));
        let iv3 = pattern(seed, 0x1719, w.iv_len(cfg));
        let data = pattern(seed, 0xC16, (par_of(cfg) + 2) * cfg.bs + 8);
        let n_ops = w.n_ops();
        // quick tier, large blocks: shorter prefix histories (the interleavings explored after the clone are the same)
        let hmax = if light(cfg, tier) > 0 { 1 } else { tier.pick(2, 3) };
        let label = w.label();
        let probe_op = 0usize;
        // pass 0: base alphabet to the full depth; pass 1: extended alphabet (further call forms), one operation per phase
        let n_ext = w.n_ops_ext();
        for pass in 0..2 {
        let h1s = if pass == 0 { histories(n_ops, hmax) } else { histories(n_ext, 1) };
        let h23 = if pass == 0 { histories(n_ops, tier.pick(2, 2)) } else { histories(n_ext, tier.pick(1, 2)) };
        let is_base = |h: &Vec<usize>| h.iter().all(|&o| o < n_ops);
        for h1 in &h1s {
            for h2 in &h23 {
                // expected transcript of the original: fresh replay of h1;h2;probe (the h2 + probe part)
                let mut full2 = h1.clone();
                full2.extend(h2);
                full2.push(probe_op);
                let Ok(exp2) = caught(&|| Ok(solo(cfg, &w, &keys[0], &iv, &data, &full2))) else {
                    rep.case(|| Ok(solo(cfg, &w, &keys[0], &iv, &data, &full2)).map(|_| ()));
                    continue;
                };
                // determinism: the same history on a second fresh instance gives identical observations
                rep.case(|| {
                    let again = solo(cfg, &w, &keys[0], &iv, &data, &full2);
                    ensure!(again == exp2, format!("nondeterministic/{label}"), "{}: the history {:?} gave different observations on two fresh instances", w.ty(), full2);
                    Ok(())
                });
                rep.outcome(&exp2.concat());
                for h3 in &h23 {
                    if pass == 1 && is_base(h1) && is_base(h2) && is_base(h3) {
                        continue;
                    }
                    let mut full3 = h1.clone();
                    full3.extend(h3);
                    let Ok(exp3) = caught(&|| Ok(solo(cfg, &w, &keys[0], &iv, &data, &full3))) else { continue };
                    // third, differently keyed instance: one op between every step; its solo transcript
                    let third_ops: Vec<usize> = (0..h2.len() + h3.len() + 1).map(|i| i % n_ops).collect();
                    let exp_third = solo(cfg, &w, &keys[1], &iv3, &data, &third_ops);
                    // how the second handle is made: 0 = clone(); 1 = clone_from() into a fresh instance built under ANOTHER
                    // key and IV; 2 = clone_from() into such an instance after it has been used.  The clone_from forms are run
                    // for the sequential interleaving only.
                    for (si, sh) in shuffles(h2.len(), h3.len()).into_iter().enumerate() {
                      for how in 0..(if si == 0 && w.clonable() { 3 } else { 1 }) {
                        rep.case(|| {
                            let mut orig = w.make(cfg, &keys[0], &iv);
                            for &op in h1 {
                                orig.op(cfg, op, &data);
                            }
                            // the second handle: a clone where the type is Clone, else a second fresh instance brought to the same state
                            let mut second = match if how == 0 { orig.dup() } else { None } {
                                Some(c) => c,
                                None if how > 0 => {
                                    let mut s = w.make(cfg, &keys[1], &iv3);
                                    if how == 2 {
                                        s.op(cfg, 0, &data);
                                        s.op(cfg, 1 % n_ops, &data);
                                    }
                                    ensure!(s.clone_from(&orig), "MACHINERY", "harness: clone_from on a Clone type");
                                    s
                                }
                                None => {
                                    let mut s = w.make(cfg, &keys[0], &iv);
                                    for &op in h1 {
                                        s.op(cfg, op, &data);
                                    }
                                    s
                                }
                            };
                            let mut third = w.make(cfg, &keys[1], &iv3);
                            let (mut i2, mut i3) = (0, 0);
                            let mut t = 0;
                            for &who in &sh {
                                let obs3 = third.op(cfg, third_ops[t], &data);
                                ensure!(obs3 == exp_third[t], format!("instances_interfere/{label}"), "{}: an unrelated instance (other key and IV) observed {} instead of {} at its step {} while two other handles were in use", w.ty(), short(&obs3), short(&exp_third[t]), t);
                                t += 1;
                                if who == 0 {
                                    let obs = orig.op(cfg, h2[i2], &data);
                                    ensure!(obs == exp2[h1.len() + i2], format!("original_affected/{label}"), "{}: after history {:?} and clone, with the clone doing {:?} in interleaving {:?}: the original's step {} ({}) observed {} but a fresh instance replaying {:?} observes {}", w.ty(), h1, h3, sh, i2, w.op_name(cfg, h2[i2]), short(&obs), full2, short(&exp2[h1.len() + i2]));
                                    i2 += 1;
                                } else {
                                    let obs = second.op(cfg, h3[i3], &data);
                                    ensure!(obs == exp3[h1.len() + i3], format!("{}/{label}", if how == 0 { "clone_diverges" } else { "clone_from_diverges" }), "{}: after history {:?} and clone, with the original doing {:?} in interleaving {:?}: the clone's step {} ({}) observed {} but a fresh instance replaying {:?} observes {}", w.ty(), h1, h2, sh, i3, w.op_name(cfg, h3[i3]), short(&obs), full3, short(&exp3[h1.len() + i3]));
                                    i3 += 1;
                                }
                            }
                            // dropping the second handle must leave the original intact
                            drop(second);
                            let obs = orig.op(cfg, probe_op, &data);
                            ensure!(obs == *exp2.last().unwrap(), format!("original_affected_by_drop/{label}"), "{}: after the clone was dropped the original observed {} but a fresh instance replaying {:?} observes {}", w.ty(), short(&obs), full2, short(exp2.last().unwrap()));
                            Ok(())
                        });
                      }
                    }
                }
            }
        }
        }
        rep.sample(case_json(vec![("type", w.ty().into()), ("clone", w.clonable().into()), ("ops", J::Arr((0..n_ext).map(|o| w.op_name(cfg, o).into()).collect())), ("h1_max", hmax.into()), ("h2_h3_max", 2usize.into()), ("example", "h1=[0,1]; clone; interleaving [orig:2, clone:0, orig:1]".into())]));
        rep.finish()
    });
    // ciphertext-stealing types: a clone (taken, original dropped) behaves like the original
    let cts_units: Vec<(&Cfg, &CtsDesc)> = cfgs.iter().flat_map(|c| c.cts.iter().map(move |d| (*c, d))).collect();
    let r2 = par_map(&cts_units, |(cfg, d)| {
        let mut rep = Report::new(format!("{}/{}", cfg.name, d.name));
        let bs = cfg.bs;
        let key = &keys(seed, cfg.key_len)[0];
        let iv = pattern(seed, 0x1717, bs);
        let data = pattern(seed, 0xC16C, 3 * bs + 1);
        for l in [bs, bs + 1, 2 * bs, 3 * bs + 1] {
            for dir in [Dir::Enc, Dir::Dec] {
                for k in KINDS {
                    rep.case(|| {
                        let mut a = if k.in_place() { data[..l].to_vec() } else { dirty(l) };
                        let mut b = a.clone();
                        let ra = rec::cts(cfg, d, Ctor::Inner, false, dir, k, key, &iv, &data[..l], &mut a).expect("harness: ctor");
                        let rb = rec::cts(cfg, d, Ctor::Inner, true, dir, k, key, &iv, &data[..l], &mut b).expect("harness: ctor");
                        ensure!(a == b && ra == rb, format!("clone_diverges/{}", d.name), "{}: a clone {}s {} bytes to {} but the original to {}", d.ty, dir.s(), l, short(&b), short(&a));
                        Ok(())
                    });
                }
            }
        }
        rep.finish()
    });
    // ---- state shared through something keyed too coarsely (a process-wide cache keyed by the IV or by the key only) ----
    // Run on this thread alone, after the parallel parts have joined: instance A (key 1, IV 1) runs a history that includes
    // exports; then instance B is created under (other key, same IV), (same key, other IV) or (same key, same IV) and must
    // behave like a fresh instance.  The expectation comes from the reference model, not from another run of the real code.
    let mut rs = Report::new("shared-state/sequential".to_string());
    for cfg in &cfgs {
        let ks = keys(seed, cfg.key_len);
        for w in all_kinds(cfg) {
            let iv = pattern(seed, 0x1717, w.iv_len(cfg));
            let iv2 = pattern(seed, 0x1719, w.iv_len(cfg));
            let data = pattern(seed, 0xC16, (par_of(cfg) + 2) * cfg.bs + 8);
            let label = w.label();
            let n_base = w.n_ops();
            for h in histories(w.n_ops_ext(), if light(cfg, tier) > 0 { 1 } else { 2 }) {
                // only histories that end with an operation of the base alphabet's observation kind or any data call: all of them
                for (kb, ivb, what) in [(&ks[1], &iv, "another key and the same IV"), (&ks[0], &iv2, "the same key and another IV"), (&ks[0], &iv, "the same key and IV")] {
                    let want = w.ref_first_two_ops(cfg, kb, ivb, &data);
                    rs.case(|| {
                        let mut a = w.make(cfg, &ks[0], &iv);
                        for &op in &h {
                            a.op(cfg, op, &data);
                        }
                        let mut b = w.make(cfg, kb, ivb);
                        for (i, wanted) in want.iter().enumerate() {
                            let obs = b.op(cfg, i, &data);
                            ensure!(obs == *wanted, format!("later_instance_affected/{label}"), "{}: after another instance ran {:?}, a NEW instance under {} observed {} at its step {} ({}) but the reference for a fresh instance is {}", w.ty(), h.iter().map(|o| w.op_name(cfg, *o)).collect::<Vec<_>>(), what, short(&obs), i, w.op_name(cfg, i), short(wanted));
                        }
                        drop(a);
                        Ok(())
                    });
                }
            }
            let _ = n_base;
        }
    }
    let mut o = merge(reports);
    extend(&mut o, merge(r2));
    extend(&mut o, merge(vec![rs.finish()]));
    // the assumption behind call-granular exploration, made visible: hidden shared state in the sources
    let mut hits = vec![];
    for krate in ["belt-ctr", "cbc", "cfb-mode", "cfb8", "ctr", "cts", "ige", "ofb", "pcbc"] {
        let mut stack = vec![std::path::PathBuf::from(format!("/repo/{krate}/src"))];
        while let Some(p) = stack.pop() {
            if let Ok(rd) = std::fs::read_dir(&p) {
                for e in rd.flatten() {
                    stack.push(e.path());
                }
            } else if let Ok(text) = std::fs::read_to_string(&p) {
                for (i, line) in text.lines().enumerate() {
                    let l = line.trim_start();
                    if l.starts_with("//") {
                        continue;
                    }
                    for pat in ["static ", "thread_local!", "Cell<", "RefCell", "Atomic", "unsafe ", "lazy_static", "OnceLock", "OnceCell", "Mutex"] {
                        if l.contains(pat) && !l.contains("&'static") && !l.contains("forbid(unsafe_code)") && !l.contains("deny(unsafe_code)") {
                            hits.push(format!("{}:{}: {}", p.display(), i + 1, l.chars().take(80).collect::<String>()));
                        }
                    }
                }
            }
        }
    }
    hits.sort();
    o.notes.push(format!("source scan for hidden shared state (static / thread_local / Cell / Atomic / unsafe / OnceLock / Mutex) in the nine src trees: {}", if hits.is_empty() { "none found".to_string() } else { hits.join(" | ") }));
    o.counters.insert("shared_state_constructs_in_sources".into(), hits.len() as u64);
    o.rule = "stateless exhaustive over interleavings: for every object kind (12 block-mode types, keystream cores, byte-level aliases, buffered CFB) x configuration: every history h1 (<= 2/3 ops) on an instance; clone — by clone(), and for the sequential interleaving also by clone_from() into a fresh and into a used instance built under another key and IV — (for non-Clone BelT types: a second fresh instance brought to the same state); every pair of histories h2 (original), h3 (clone) of <= 2 ops and EVERY interleaving of them, with a third differently keyed instance taking one step between any two; oracle: each handle's observations equal those of a fresh instance replaying h1;h2 resp. h1;h3 alone, the third instance equals its solo run, the same history on two fresh instances is identical, and dropping the clone leaves the original intact; CTS types: clone-then-use equals use".into();
    o.configs = cfgs.iter().map(|c| c.name.clone()).collect();
    o.bounds = vec![("h1_max_ops".into(), J::Int(tier.pick(2, 3))), ("h2_h3_max_ops".into(), J::Int(2)), ("ops_per_kind".into(), J::Str("2..4 (data call small, data call > one batch, observation, reposition)".into()))];
    o.assumptions = vec!["hidden state written and read within one call is invisible at call granularity; the evidence lists every static / thread_local / Cell / atomic / unsafe construct found in the nine src trees so the assumption is visible if it stops holding".into()];
    o
}
