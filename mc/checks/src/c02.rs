//! C02 — CBC, PCBC and IGE compute exactly their defining recurrences, both directions; the
//! decryptors are also fed byte strings no encryptor produced.
use crate::ctx::*;
use crate::ensure;
use crate::modes::*;
use crate::rec;
use crate::util::*;
use base::api::*;
use base::json::J;

pub fn schedules(n: usize) -> Vec<Vec<Piece>> {
    let mut v = vec![];
    for k in KINDS {
        // all single-block calls
        v.push((0..n).map(|_| Piece { n: 1, kind: k, single: true }).collect());
        // one multi-block call (also for n = 0 and n = 1)
        v.push(vec![Piece { n, kind: k, single: false }]);
    }
    // empty multi-block calls before, between and after
    for k in [Kind::InPlace, Kind::B2b] {
        let mut s = vec![Piece { n: 0, kind: k, single: false }];
        if n >= 1 {
            s.push(Piece { n: 1, kind: k, single: false });
            s.push(Piece { n: 0, kind: k, single: false });
            s.push(Piece { n: n - 1, kind: k, single: false });
        }
        s.push(Piece { n: 0, kind: k, single: false });
        v.push(s);
    }
    // every two-way split, same kind and mixed kinds
    for i in 1..n {
        for (k1, k2) in [(Kind::InPlace, Kind::InPlace), (Kind::B2b, Kind::B2b), (Kind::InOut, Kind::InPlace), (Kind::InPlace, Kind::B2b)] {
            v.push(vec![Piece { n: i, kind: k1, single: false }, Piece { n: n - i, kind: k2, single: false }]);
        }
    }
    v
}

pub fn run(ctx: &Ctx) -> Outcome {
    let cfgs = ctx.cfgs_with_sweep();
    let units: Vec<(&Cfg, &BlockModeDesc)> = cfgs.iter().flat_map(|c| c.block_modes.iter().filter(|d| matches!(d.mode, "cbc" | "pcbc" | "ige")).map(move |d| (*c, d))).collect();
    let tier = ctx.tier;
    let seed = ctx.seed;
    let reports = par_map(&units, |(cfg, d)| {
        let mut rep = Report::new(format!("{}/{}-{}", cfg.name, d.mode, d.dir.s()));
        let par = par_of(cfg);
        // all-sizes sweep configurations (thorough): every block size 1..=255 with reduced bounds
        let sweep = cfg.sets.contains('s');
        let nmax = if sweep { 5 } else { tier.pick((2 * par + 2).max(10), (3 * par + 3).max(18)) };
        let keys = keys(seed, cfg.key_len);
        for key in keys.iter().take(if sweep { 1 } else { tier.pick(1, 2) }) {
            for (ivn, iv) in iv_variants(seed, d.iv_len).into_iter().skip(if sweep { 2 } else { 0 }) {
                // long calls (past 32, 64, 256 blocks) for small blocks: one call in each form, and a single block before / after
                let longs: Vec<usize> = if !sweep && cfg.bs <= 16 { vec![33, 65, 257] } else { vec![] };
                let ndata = nmax.max(longs.last().copied().unwrap_or(0));
                for (dn, data) in data_variants(seed, 0xC02, ndata * d.mbs).into_iter().skip(if sweep { 2 } else { 0 }) {
                    let pre = dirty(ndata * d.mbs);
                    for n in (0..=nmax).chain(longs.iter().copied()) {
                        let inp = &data[..n * d.mbs];
                        let want = bm_ref(cfg, d, key, &iv, inp);
                        rep.outcome(&want.out);
                        let scheds = if n <= nmax {
                            schedules(n)
                        } else {
                            let mut v: Vec<Vec<Piece>> = KINDS.iter().map(|&k| vec![Piece { n, kind: k, single: false }]).collect();
                            v.push(vec![Piece { n: 1, kind: Kind::InPlace, single: true }, Piece { n: n - 1, kind: Kind::B2b, single: false }]);
                            v.push(vec![Piece { n: n - 1, kind: Kind::InPlace, single: false }, Piece { n: 1, kind: Kind::B2b, single: true }]);
                            v
                        };
                        for sched in scheds {
                            rep.case(|| {
                                let mut obj = rec::bm(cfg, d, key, &iv);
                                ensure!(obj.iv_state() == want.states[0], format!("initial_state/{}-{}", d.mode, d.dir.s()), "iv_state() of a fresh {} is not the IV", d.ty);
                                let mut off = 0usize;
                                let mut out = vec![];
                                for p in &sched {
                                    let o = run_piece(&mut *obj, p, &inp[off * d.mbs..(off + p.n) * d.mbs], &pre)?;
                                    out.extend(o);
                                    off += p.n;
                                    let st = obj.iv_state();
                                    ensure!(out == want.out[..off * d.mbs], format!("output/{}-{}", d.mode, d.dir.s()), "{} n={} iv={} data={} schedule [{}]: output after {} blocks is {} want {} (first diff at byte {:?})", d.ty, n, ivn, dn, sched.iter().map(piece_s).collect::<Vec<_>>().join(" "), off, short(&out), short(&want.out[..off * d.mbs]), first_diff(&out, &want.out[..off * d.mbs]));
                                    ensure!(st == want.states[off], format!("chaining_value/{}-{}", d.mode, d.dir.s()), "{} n={} iv={} data={} schedule [{}]: iv_state() after {} blocks is {} want {}", d.ty, n, ivn, dn, sched.iter().map(piece_s).collect::<Vec<_>>().join(" "), off, short(&st), short(&want.states[off]));
                                }
                                Ok(())
                            });
                        }
                        // the same through a caller-supplied closure passed to *_with_backend (full groups via *_par_blocks,
                        // remainder block by block or via *_tail_blocks if non-empty), as one call and as every two-way split
                        for mode in [1u8, 2, 3, 4, 5, 6, 7, 8] {
                            for cut in 0..n.max(1) {
                                rep.case(|| {
                                    let mut obj = rec::bm(cfg, d, key, &iv);
                                    let mut buf = inp.to_vec();
                                    let a = cut * d.mbs;
                                    if cut > 0 {
                                        obj.many_closure(mode, &mut buf[..a]);
                                        let st = obj.iv_state();
                                        ensure!(st == want.states[cut], format!("chaining_value/{}-{}", d.mode, d.dir.s()), "{} n={} iv={} data={}: iv_state() after {} blocks fed through a caller-supplied closure (mode {}) is {} want {}", d.ty, n, ivn, dn, cut, mode, short(&st), short(&want.states[cut]));
                                    }
                                    obj.many_closure(mode, &mut buf[a..]);
                                    ensure!(buf == want.out, format!("output/{}-{}", d.mode, d.dir.s()), "{} n={} iv={} data={} through a caller-supplied closure (mode {}, cut at {}): output {} want {} (first diff at byte {:?})", d.ty, n, ivn, dn, mode, cut, short(&buf), short(&want.out), first_diff(&buf, &want.out));
                                    let st = obj.iv_state();
                                    ensure!(st == want.states[n], format!("chaining_value/{}-{}", d.mode, d.dir.s()), "{} n={} iv={} data={}: iv_state() after {} blocks fed through a caller-supplied closure (mode {}) is {} want {}", d.ty, n, ivn, dn, n, mode, short(&st), short(&want.states[n]));
                                    Ok(())
                                });
                            }
                        }
                        if n == 2 && dn == "pat" && ivn == "pat" {
                            rep.sample(case_json(vec![("type", d.ty.as_str().into()), ("blocks", n.into()), ("iv", hx(&iv)), ("input", hx(inp)), ("expected_output", hx(&want.out)), ("expected_final_chaining_value", hx(&want.states[n])), ("schedules", (6 + 4 * (n - 1)).into())]));
                        }
                    }
                }
            }
        }
        rep.finish()
    });
    // one HUGE call (a megabyte and three blocks: past any 512 KiB / 1 MiB "slab" threshold) through the multi-block call in
    // every kind, on one 16-byte configuration; output and final chaining value against the reference computed in one pass
    let huge_units: Vec<(&Cfg, &BlockModeDesc)> = units.iter().filter(|(c, _)| c.is_toy() && c.bs == 16 && c.par == 3).cloned().collect();
    let rhuge = par_map(&huge_units, |(cfg, d)| {
        let mut rep = Report::new(format!("{}/{}-{}/huge", cfg.name, d.mode, d.dir.s()));
        let key = &keys(seed, cfg.key_len)[0];
        let iv = pattern(seed, 0x1717, d.iv_len);
        let n = (1usize << 20) / d.mbs + 3;
        let data = pattern(seed, 0xC02E, n * d.mbs);
        let (want, want_state) = crate::fe::family_ref(cfg, d.mode, d.dir, key, &iv, &data);
        for k in KINDS {
            rep.case(|| {
                let mut obj = rec::bm(cfg, d, key, &iv);
                let mut out = if k.in_place() { data.clone() } else { dirty(data.len()) };
                let r = obj.many(k, &data, &mut out);
                ensure!(r.is_ok(), format!("equal_length_call_refused/{}-{}", d.mode, d.dir.s()), "{}: a {}-byte call with equal lengths returned Err", d.ty, data.len());
                ensure!(out == want, format!("output/{}-{}", d.mode, d.dir.s()), "{} one call of {} blocks ({}): output differs from the reference recurrence (first diff at byte {:?})", d.ty, n, k.s(), first_diff(&out, &want));
                let st = obj.iv_state();
                ensure!(Some(&st) == want_state.as_ref(), format!("chaining_value/{}-{}", d.mode, d.dir.s()), "{} after one call of {} blocks ({}): iv_state() is {} want {:?}", d.ty, n, k.s(), short(&st), want_state.as_ref().map(|s| short(s)));
                Ok(())
            });
        }
        rep.finish()
    });
    let mut o = merge(reports);
    extend(&mut o, merge(rhuge));
    o.rule = "stateless exhaustive: (mode in cbc/pcbc/ige) x direction x configuration x key x IV x data pattern x n blocks x schedule (all single-block calls, one call, every two-way split, empty calls, and the same through caller-supplied closures passed to *_with_backend) x call form; output and iv_state() compared with the reference recurrence after every call; decryptors are fed the data patterns as ciphertext".into();
    o.configs = cfgs.iter().map(|c| c.name.clone()).collect();
    o.bounds = vec![("all_sizes_sweep".into(), J::Str(if tier == Tier::Thorough && cfgs.iter().any(|c| c.sets.contains('s')) { "every block size 1..=255 (parallel width 2) with reduced length bounds".into() } else { "not in this tier".to_string() })), ("max_blocks".into(), J::Str(tier.pick("2*PAR+2", "3*PAR+3").into())), ("keys".into(), J::Int(tier.pick(1, 2))), ("ivs".into(), J::Int(3)), ("data_patterns".into(), J::Int(3))];
    o.assumptions = vec!["reference recurrences validated against the published AES vectors (CBC, PCBC, IGE) at start-up".into(), "data-oblivious control flow (three data patterns)".into()];
    o
}
