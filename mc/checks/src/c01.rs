//! C01 — decryption inverts encryption for every mode, through every pair of public paths, and
//! every unpadded operation preserves the length.
use crate::ctx::*;
use crate::ensure;
use crate::fe::*;
use crate::rec;
use crate::util::*;
use base::api::*;
use base::json::J;
use base::refmodel as rf;

/// an unpadded path through a front-end: how the data is cut and which call form is used
#[derive(Clone, Debug)]
pub struct Path {
    pub name: String,
    pub unit: bool,
    /// short piece, long unaligned piece, short piece
    pub three: bool,
    pub kind: Kind,
    /// whole input through a caller-supplied closure / write_keystream_blocks (`P::closure`)
    pub closure: u8,
    /// pieces of cycling sizes, each through the next call form of `Fe::forms` (phase = starting form)
    pub cycle: Option<usize>,
}
pub fn paths(fe: &Fe) -> Vec<Path> {
    let mut v = vec![];
    let base = |name: String, kind: Kind| Path { name, unit: false, three: false, kind, closure: 0, cycle: None };
    for &k in &fe.kinds {
        v.push(base(format!("whole:{}", k.s()), k));
    }
    for &c in &fe.closures {
        let name = match c {
            1 => "closure-singles",
            2 => "closure-tail",
            3 => "closure-inplace-singles",
            4 => "closure-inplace-tail",
            5 => "closure-all-singles",
            6 => "closure-misaligned",
            7 => "closure-b2b-then-inplace",
            8 => "closure-inplace-then-b2b",
            _ => "write_keystream",
        };
        v.push(Path { closure: c, ..base(format!("whole:{name}"), Kind::InPlace) });
    }
    if fe.multi {
        v.push(Path { unit: true, ..base("unitwise".into(), fe.kinds[0]) });
        v.push(Path { three: true, ..base("three-pieces".into(), fe.kinds[0]) });
        for ph in 0..2 {
            v.push(Path { cycle: Some(ph), ..base(format!("form-cycle:{ph}"), fe.kinds[0]) });
        }
    }
    v
}
pub fn pieces_for(fe: &Fe, path: &Path, l: usize) -> Vec<P> {
    let g = fe.gran;
    if let Some(ph) = path.cycle {
        // granules per piece: a fixed cycle with small and larger pieces; forms: every form in turn
        let sizes: [usize; 7] = if g == 1 { [1, 3, 2, 7, 5, 17, 4] } else { [1, 2, 3, 1, 4, 2, 5] };
        let mut left = l / g;
        let mut v = vec![];
        let mut i = ph * 3;
        while left > 0 {
            let n = sizes[i % sizes.len()].min(left);
            let forms = fe.forms(n);
            v.push(forms[(i + ph) % forms.len()]);
            left -= n;
            i += 1;
        }
        if v.is_empty() {
            v.push(p(0, path.kind));
        }
        return v;
    }
    if path.closure != 0 {
        return vec![P { len: l, kind: Kind::InPlace, single: false, closure: path.closure }];
    }
    if path.three {
        // first piece ends mid-block where the granule allows it, the middle piece is as long as possible
        let a = if g == 1 { 1 + (l / 7) % 5 } else { g };
        let c = if g == 1 { 1 + (l / 11) % 3 } else { g };
        if l >= a + c + g {
            return vec![p(a, path.kind), p(l - a - c, path.kind), p(c, path.kind)];
        }
        return vec![p(l, path.kind)];
    }
    if path.unit && l > 0 { (0..l / fe.gran).map(|_| P { len: fe.gran, kind: path.kind, single: fe.singles, closure: 0 }).collect() } else { vec![p(l, path.kind)] }
}

const FAMILIES: [&str; 13] = ["cbc", "pcbc", "ige", "cfb", "cfb8", "ofb", "ctr32be", "ctr32le", "ctr64be", "ctr64le", "ctr128be", "ctr128le", "belt"];

/// padded encryption through one form; returns the ciphertext
pub fn padded_enc(cfg: &Cfg, d: &BlockModeDesc, pad: Pad, k: Kind, key: &[u8], iv: &[u8], m: &[u8]) -> Result<Vec<u8>, Fail> {
    let plen = rf::pad(pad, d.mbs, m).map(|v| v.len());
    let obj = rec::bm(cfg, d, key, iv);
    let room = plen.unwrap_or(m.len() + d.mbs);
    let mut out = dirty(room);
    if k.in_place() {
        out[..m.len()].copy_from_slice(m);
    }
    let r = obj.padded(pad, k, m, &mut out);
    match (r, plen) {
        (Ok(n), Some(pl)) => {
            ensure!(n == pl, format!("padded_length/{}-{}", d.mode, d.dir.s()), "{} encrypt_padded<{}>({}) of {} bytes returned {} bytes, expected {}", d.ty, pad.s(), k.s(), m.len(), n, pl);
            out.truncate(n);
            Ok(out)
        }
        (Err(()), Some(_)) => fail(format!("padded_enc_refused/{}-{}", d.mode, d.dir.s()), format!("{} encrypt_padded<{}>({}) of {} bytes with sufficient room returned Err", d.ty, pad.s(), k.s(), m.len())),
        (Ok(_), None) => fail(format!("padded_enc_accepted_unpaddable/{}-{}", d.mode, d.dir.s()), format!("{} encrypt_padded<{}>({}) accepted {} bytes", d.ty, pad.s(), k.s(), m.len())),
        (Err(()), None) => fail("SKIP", ""),
    }
}
pub fn padded_dec(cfg: &Cfg, d: &BlockModeDesc, pad: Pad, k: Kind, key: &[u8], iv: &[u8], ct: &[u8]) -> Result<Vec<u8>, Fail> {
    let obj = rec::bm(cfg, d, key, iv);
    let mut out = if k.in_place() { ct.to_vec() } else { dirty(ct.len()) };
    match obj.padded(pad, k, ct, &mut out) {
        Ok(n) => {
            out.truncate(n);
            Ok(out)
        }
        Err(()) => fail(format!("padded_dec_refused/{}-{}", d.mode, d.dir.s()), format!("{} decrypt_padded<{}>({}) of a {}-byte well-formed ciphertext returned Err", d.ty, pad.s(), k.s(), ct.len())),
    }
}

pub fn run(ctx: &Ctx) -> Outcome {
    let cfgs = ctx.cfgs_with_sweep();
    let tier = ctx.tier;
    let seed = ctx.seed;
    // --- part 1: unpadded front-end pairs per family ------------------------------------------
    let mut units: Vec<(&Cfg, &'static str)> = vec![];
    for c in &cfgs {
        for fam in FAMILIES {
            let present = match fam {
                "cbc" | "pcbc" | "cfb" | "cfb8" | "ofb" => true,
                "ige" => c.block_mode("ige", Dir::Enc).is_some(),
                f => c.core(f).is_some(),
            };
            if present {
                units.push((c, fam));
            }
        }
    }
    let r1 = par_map(&units, |(cfg, fam)| {
        let mut rep = Report::new(format!("{}/{}", cfg.name, fam));
        let bs = cfg.bs;
        let par = par_of(cfg);
        let block_only = matches!(*fam, "cbc" | "pcbc" | "ige");
        // all-sizes sweep configurations (every block size 1..=255): reduced length bounds
        let sweep = cfg.sets.contains('s');
        let lmax = if sweep {
            if block_only { 5 * bs } else { 2 * bs + 1 }
        } else if block_only {
            tier.pick(2 * par + 2, 3 * par + 3) * bs
        } else {
            tier.pick(3 * bs + 2, 4 * bs + 3).max(if fam.starts_with("ctr") || *fam == "belt" { (par + 2) * bs + 1 } else { 0 })
        };
        let mut lens: Vec<usize> = if block_only { (0..=lmax / bs).map(|n| n * bs).collect() } else { byte_lengths(bs, lmax) };
        let mut lmax = lmax;
        if bs <= 32 && !sweep {
            lens.extend(if block_only { long_block_lengths(bs) } else { long_lengths(bs) });
            lmax = lmax.max(*lens.iter().max().unwrap());
        }
        let enc_fes = family_frontends(cfg, fam, Dir::Enc);
        let dec_fes = family_frontends(cfg, fam, Dir::Dec);
        let iv_len = if *fam == "ige" { 2 * bs } else { bs };
        let pre = dirty(lmax + 2 * bs);
        for key in keys(seed, cfg.key_len).iter().take(if sweep { 1 } else { tier.pick(1, 2) }) {
            for (ivn, iv) in iv_variants(seed, iv_len).into_iter().skip(if sweep { 2 } else { light(cfg, tier) }) {
                for (dn, data) in data_variants(seed, 0xC01, lmax).into_iter().skip(if sweep { 2 } else { light(cfg, tier) }) {
                    for &l in &lens {
                        let m = &data[..l];
                        // every decrypt path is run once per DISTINCT ciphertext: decryption is a deterministic function of
                        // (object, ciphertext, path) -- C16 checks that independently -- so an encrypt path that reproduces a
                        // ciphertext already decrypted through every path adds no new execution (counted, not re-run)
                        let mut seen_ct: Vec<Vec<u8>> = vec![];
                        for ef in &enc_fes {
                            if l % ef.gran != 0 {
                                continue;
                            }
                            for ep in paths(ef) {
                                // encrypt once per (front-end, path); a failure here is a case of its own
                                let mut ct: Option<Vec<u8>> = None;
                                rep.case(|| {
                                    let o = (ef.run)(key, &iv, m, &pieces_for(ef, &ep, l), &pre)?;
                                    ensure!(o.out.len() == l, format!("length/{}", ef.name), "{} {}: {} bytes in, {} bytes out", ef.ty, ep.name, l, o.out.len());
                                    Ok(())
                                });
                                if let Ok(Ok(o)) = std::panic::catch_unwind(std::panic::AssertUnwindSafe(|| (ef.run)(key, &iv, m, &pieces_for(ef, &ep, l), &pre))) {
                                    ct = Some(o.out);
                                }
                                let Some(ct) = ct else { continue };
                                rep.outcome(&ct);
                                if seen_ct.contains(&ct) {
                                    rep.count("pairs_covered_by_equal_ciphertext", dec_fes.iter().filter(|df| l % df.gran == 0).map(|df| paths(df).len() as u64).sum());
                                    continue;
                                }
                                seen_ct.push(ct.clone());
                                for df in &dec_fes {
                                    if l % df.gran != 0 {
                                        continue;
                                    }
                                    for dp in paths(df) {
                                        rep.case(|| {
                                            let o = (df.run)(key, &iv, &ct, &pieces_for(df, &dp, l), &pre)?;
                                            ensure!(o.out == m, format!("roundtrip/{}", fam), "{}: dec[{} {}](enc[{} {}](m)) != m for L={} iv={} data={}: got {} want {} (first diff at byte {:?})", cfg.name, df.name, dp.name, ef.name, ep.name, l, ivn, dn, short(&o.out), short(m), first_diff(&o.out, m));
                                            Ok(())
                                        });
                                    }
                                }
                            }
                        }
                    }
                }
            }
        }
        rep.sample(case_json(vec![("family", (*fam).into()), ("cfg", cfg.name.as_str().into()), ("enc_front_ends", J::Arr(enc_fes.iter().map(|f| f.name.as_str().into()).collect())), ("dec_front_ends", J::Arr(dec_fes.iter().map(|f| f.name.as_str().into()).collect())), ("lengths", lens.len().into())]));
        rep.finish()
    });
    // --- part 2: ciphertext stealing, all (enc form, dec form) pairs ----------------------------
    let cts_units: Vec<(&Cfg, &CtsDesc)> = cfgs.iter().flat_map(|c| c.cts.iter().map(move |d| (*c, d))).collect();
    let r2 = par_map(&cts_units, |(cfg, d)| {
        let mut rep = Report::new(format!("{}/{}", cfg.name, d.name));
        let bs = cfg.bs;
        let lens = if cfg.sets.contains('s') { vec![bs, bs + 1, 2 * bs - 1, 2 * bs, 2 * bs + 1, 3 * bs + bs / 2, 5 * bs] } else { crate::c05::cts_lengths(bs, par_of(cfg), tier) };
        let lmax = *lens.iter().max().unwrap();
        let pre = dirty(lmax);
        let ef = fe_cts(cfg, d, Dir::Enc);
        let df = fe_cts(cfg, d, Dir::Dec);
        for key in keys(seed, cfg.key_len).iter().take(1) {
            for (ivn, iv) in iv_variants(seed, bs).into_iter().skip(if d.cbc { light(cfg, tier) } else { 0 }) {
                if !d.cbc && ivn != "zero" {
                    continue;
                }
                for (dn, data) in data_variants(seed, 0xC01, lmax).into_iter().skip(light(cfg, tier)) {
                    for &l in &lens {
                        let m = &data[..l];
                        for ek in KINDS {
                            let Ok(Ok(ct)) = std::panic::catch_unwind(std::panic::AssertUnwindSafe(|| (ef.run)(key, &iv, m, &[p(l, ek)], &pre))) else {
                                rep.case(|| (ef.run)(key, &iv, m, &[p(l, ek)], &pre).map(|_| ()));
                                continue;
                            };
                            rep.outcome(&ct.out);
                            for dk in KINDS {
                                rep.case(|| {
                                    ensure!(ct.out.len() == l, format!("length/{}", d.name), "{}: {} bytes in, {} bytes out", d.ty, l, ct.out.len());
                                    let o = (df.run)(key, &iv, &ct.out, &[p(l, dk)], &pre)?;
                                    ensure!(o.out == m, format!("roundtrip/{}/{}", d.name, crate::c05::shape(bs, l)), "{}: decrypt({})(encrypt({})(m)) != m for L={} iv={} data={}: got {} want {}", d.ty, dk.s(), ek.s(), l, ivn, dn, short(&o.out), short(m));
                                    Ok(())
                                });
                            }
                        }
                    }
                }
            }
        }
        rep.finish()
    });
    // --- part 3: padded operation ----------------------------------------------------------------
    let pad_units: Vec<(&Cfg, &'static str)> = cfgs.iter().flat_map(|c| ["cbc", "pcbc", "ige", "cfb", "cfb8", "ofb"].into_iter().filter(|m| c.block_mode(m, Dir::Enc).is_some()).map(move |m| (*c, m))).collect();
    let r3 = par_map(&pad_units, |(cfg, mode)| {
        let mut rep = Report::new(format!("{}/{}-padded", cfg.name, mode));
        let de = cfg.block_mode(mode, Dir::Enc).unwrap();
        let dd = cfg.block_mode(mode, Dir::Dec).unwrap();
        let mbs = de.mbs;
        let lmax = tier.pick(2 * mbs + 1, 3 * mbs + 2).max(3);
        let mut lens = byte_lengths(mbs, lmax);
        let par = par_of(cfg);
        // messages long enough for the parallel path inside the padded calls, and past 8 / 16 blocks
        let mut lmax = lmax;
        for n in [par + 1, 2 * par + 1, 9, 17] {
            if n * mbs <= 17 * 32 {
                for r in [0, 1, mbs - 1] {
                    lens.push(n * mbs + r);
                }
            }
        }
        lens.sort();
        lens.dedup();
        lmax = lmax.max(*lens.last().unwrap());
        let plain_dec = fe_bm(cfg, dd);
        let pre = dirty(lmax + 2 * mbs);
        for key in keys(seed, cfg.key_len).iter().take(1) {
            for (_ivn, iv) in iv_variants(seed, de.iv_len).into_iter().skip(1) {
                for (dn, data) in data_variants(seed, 0xC01, lmax) {
                    for &l in &lens {
                        let m = &data[..l];
                        for pad in PADS {
                            let Some(padded_m) = rf::pad(pad, mbs, m) else { continue };
                            for ek in KINDS {
                                let mut ct = None;
                                rep.case(|| padded_enc(cfg, de, pad, ek, key, &iv, m).map(|_| ()));
                                if let Ok(Ok(c)) = std::panic::catch_unwind(std::panic::AssertUnwindSafe(|| padded_enc(cfg, de, pad, ek, key, &iv, m))) {
                                    ct = Some(c);
                                }
                                let Some(ct) = ct else { continue };
                                rep.outcome(&ct);
                                // padded decryption through every form returns m (NoPadding returns the padded message = m)
                                for dk in KINDS {
                                    rep.case(|| {
                                        let got = padded_dec(cfg, dd, pad, dk, key, &iv, &ct)?;
                                        ensure!(got == m, format!("padded_roundtrip/{}", mode), "{}: decrypt_padded<{}>({})(encrypt_padded({})(m)) != m for L={} data={}: got {} want {}", dd.ty, pad.s(), dk.s(), ek.s(), l, dn, short(&got), short(m));
                                        Ok(())
                                    });
                                }
                                // and the unpadded block-level decryptor returns pad(m)
                                rep.case(|| {
                                    let o = (plain_dec.run)(key, &iv, &ct, &[p(ct.len(), Kind::InPlace)], &pre)?;
                                    ensure!(o.out == padded_m, format!("padded_vs_plain/{}", mode), "{}: block-level decryption of encrypt_padded<{}>({})(m) is {} want pad(m) = {}", dd.ty, pad.s(), ek.s(), short(&o.out), short(&padded_m));
                                    Ok(())
                                });
                            }
                        }
                    }
                }
                // one object used in two ways (the usual streaming pattern): whole blocks through the block-level calls, then the
                // consuming padded call for the rest -- on both sides
                let data = pattern(seed, 0xC01B, (2 * par + 3) * mbs);
                let mut heads = vec![1usize, par, par + 1];
                heads.sort();
                heads.dedup();
                for &h in &heads {
                    for t in [0usize, 1, mbs - 1, mbs, mbs + 1, par * mbs + 1] {
                        let m = &data[..h * mbs + t];
                        for pad in PADS {
                            let Some(padded_m) = rf::pad(pad, mbs, m) else { continue };
                            let want_ct = family_ref(cfg, mode, Dir::Enc, key, &iv, &padded_m).0;
                            for single in [false, true] {
                                if single && h > 2 {
                                    continue;
                                }
                                for k in KINDS {
                                    rep.case(|| {
                                        let feed = |obj: &mut Box<dyn BlockMode>, buf: &mut [u8]| {
                                            if single {
                                                for b in buf.chunks_mut(mbs) {
                                                    obj.one(Kind::InPlace, &[], b);
                                                }
                                            } else {
                                                let _ = obj.many(Kind::InPlace, &[], buf);
                                            }
                                        };
                                        // encrypt: head through block-level calls, tail through encrypt_padded*
                                        let mut e = rec::bm(cfg, de, key, &iv);
                                        let mut ct = m[..h * mbs].to_vec();
                                        feed(&mut e, &mut ct);
                                        let tail = &m[h * mbs..];
                                        let room = padded_m.len() - h * mbs;
                                        let mut out = dirty(room);
                                        if k.in_place() {
                                            out[..tail.len()].copy_from_slice(tail);
                                        }
                                        let n = e.padded(pad, k, tail, &mut out).map_err(|_| Fail { fp: format!("padded_enc_refused/{}-enc", mode), msg: format!("{} encrypt_padded<{}>({}) after {} block(s) through the block-level calls returned Err", de.ty, pad.s(), k.s(), h) })?;
                                        out.truncate(n);
                                        ct.extend(out);
                                        ensure!(ct == want_ct, format!("blocks_then_padded/{}-enc", mode), "{}: {} block(s) through the block-level calls, then encrypt_padded<{}>({}) of {} bytes on the same object: {} want {} (first diff at byte {:?})", de.ty, h, pad.s(), k.s(), t, short(&ct), short(&want_ct), first_diff(&ct, &want_ct));
                                        // decrypt the same way
                                        let mut d = rec::bm(cfg, dd, key, &iv);
                                        let mut back = ct[..h * mbs].to_vec();
                                        feed(&mut d, &mut back);
                                        let rest = &ct[h * mbs..];
                                        let mut out = if k.in_place() { rest.to_vec() } else { dirty(rest.len()) };
                                        let n = d.padded(pad, k, rest, &mut out).map_err(|_| Fail { fp: format!("padded_dec_refused/{}-dec", mode), msg: format!("{} decrypt_padded<{}>({}) after {} block(s) through the block-level calls returned Err", dd.ty, pad.s(), k.s(), h) })?;
                                        out.truncate(n);
                                        back.extend(out);
                                        ensure!(back == m, format!("blocks_then_padded/{}-dec", mode), "{}: {} block(s) through the block-level calls, then decrypt_padded<{}>({}) on the same object: {} want {}", dd.ty, h, pad.s(), k.s(), short(&back), short(m));
                                        Ok(())
                                    });
                                }
                            }
                        }
                    }
                }
            }
        }
        rep.finish()
    });
    let mut o = merge(r1);
    extend(&mut o, merge(r2));
    extend(&mut o, merge(r3));
    o.rule = "stateless exhaustive: per mode family, every pair (encryption path, decryption path) over the public front-ends (block-level object whole/unit-wise in place, b2b, inout; AsyncStreamCipher one-shot; buffered CFB; keystream core apply / write; byte stream; ciphertext-stealing one-shots; padded forms Pkcs7/Iso7816/AnsiX923/NoPadding in place, b2b, vec) x configuration x key x IV x data x length; oracle: dec(enc(m)) = m and |enc(m)| = |m| for unpadded operations (padded length = |pad(m)|)".into();
    o.configs = cfgs.iter().map(|c| c.name.clone()).collect();
    o.bounds = vec![("all_sizes_sweep".into(), J::Str(if tier == Tier::Thorough && cfgs.iter().any(|c| c.sets.contains('s')) { "every block size 1..=255 (parallel width 2): block modes <= 5 blocks, byte modes <= 2*bs+1 bytes, CTS 7 length classes".into() } else { "not in this tier".to_string() })), ("block_modes_max_blocks".into(), J::Str(tier.pick("2*PAR+2", "3*PAR+3").into())), ("byte_modes_max_len".into(), J::Str(tier.pick("max(3*bs+2,(PAR+2)*bs+1)", "max(4*bs+3,(PAR+2)*bs+1)").into())), ("padded_max_len".into(), J::Str(tier.pick("2*bs+1", "3*bs+2").into()))];
    o.assumptions = vec!["encrypt_padded_vec::<NoPadding> on a non-multiple length panics inside the cipher crate by construction (expect on PadError); it is outside the alphabet".into()];
    // SKIP markers are not violations
    o.violations.retain(|v| v.fp != "SKIP");
    o
}
