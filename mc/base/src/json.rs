//! Minimal JSON value, writer and parser (no external crates are used by the harness).
use std::fmt::Write;

#[derive(Clone, Debug, PartialEq)]
pub enum J {
    Null,
    Bool(bool),
    Int(i128),
    Num(f64),
    Str(String),
    Arr(Vec<J>),
    Obj(Vec<(String, J)>),
}
impl From<&str> for J {
    fn from(s: &str) -> J {
        J::Str(s.to_string())
    }
}
impl From<String> for J {
    fn from(s: String) -> J {
        J::Str(s)
    }
}
impl From<bool> for J {
    fn from(s: bool) -> J {
        J::Bool(s)
    }
}
impl From<u64> for J {
    fn from(s: u64) -> J {
        J::Int(s as i128)
    }
}
impl From<usize> for J {
    fn from(s: usize) -> J {
        J::Int(s as i128)
    }
}
impl From<i64> for J {
    fn from(s: i64) -> J {
        J::Int(s as i128)
    }
}
impl From<f64> for J {
    fn from(s: f64) -> J {
        J::Num(s)
    }
}
impl<T: Into<J>> From<Vec<T>> for J {
    fn from(v: Vec<T>) -> J {
        J::Arr(v.into_iter().map(Into::into).collect())
    }
}
pub fn obj(items: Vec<(&str, J)>) -> J {
    J::Obj(items.into_iter().map(|(k, v)| (k.to_string(), v)).collect())
}
impl J {
    pub fn get(&self, k: &str) -> Option<&J> {
        match self {
            J::Obj(v) => v.iter().find(|(kk, _)| kk == k).map(|(_, v)| v),
            _ => None,
        }
    }
    pub fn as_str(&self) -> Option<&str> {
        match self {
            J::Str(s) => Some(s),
            _ => None,
        }
    }
    pub fn as_arr(&self) -> Option<&[J]> {
        match self {
            J::Arr(v) => Some(v),
            _ => None,
        }
    }
    pub fn as_int(&self) -> Option<i128> {
        match self {
            J::Int(v) => Some(*v),
            _ => None,
        }
    }
    pub fn set(&mut self, k: &str, v: J) {
        if let J::Obj(items) = self {
            if let Some(e) = items.iter_mut().find(|(kk, _)| kk == k) {
                e.1 = v;
            } else {
                items.push((k.to_string(), v));
            }
        }
    }
    pub fn dump(&self) -> String {
        let mut s = String::new();
        self.w(&mut s, 0);
        s.push('\n');
        s
    }
    fn w(&self, s: &mut String, ind: usize) {
        match self {
            J::Null => s.push_str("null"),
            J::Bool(b) => s.push_str(if *b { "true" } else { "false" }),
            J::Int(i) => {
                let _ = write!(s, "{i}");
            }
            J::Num(f) => {
                if f.is_finite() {
                    let _ = write!(s, "{:.3}", f);
                } else {
                    s.push_str("null")
                }
            }
            J::Str(t) => esc(t, s),
            J::Arr(v) => {
                if v.is_empty() {
                    s.push_str("[]");
                    return;
                }
                let simple = v.iter().all(|e| !matches!(e, J::Arr(_) | J::Obj(_)));
                s.push('[');
                for (i, e) in v.iter().enumerate() {
                    if i > 0 {
                        s.push(',');
                    }
                    if simple {
                        if i > 0 {
                            s.push(' ');
                        }
                    } else {
                        nl(s, ind + 1);
                    }
                    e.w(s, ind + 1);
                }
                if !simple {
                    nl(s, ind);
                }
                s.push(']');
            }
            J::Obj(v) => {
                if v.is_empty() {
                    s.push_str("{}");
                    return;
                }
                s.push('{');
                for (i, (k, e)) in v.iter().enumerate() {
                    if i > 0 {
                        s.push(',');
                    }
                    nl(s, ind + 1);
                    esc(k, s);
                    s.push_str(": ");
                    e.w(s, ind + 1);
                }
                nl(s, ind);
                s.push('}');
            }
        }
    }
    pub fn parse(text: &str) -> Result<J, String> {
        let b = text.as_bytes();
        let mut p = 0usize;
        let v = pv(b, &mut p)?;
        ws(b, &mut p);
        if p != b.len() {
            return Err(format!("trailing data at {p}"));
        }
        Ok(v)
    }
}
fn nl(s: &mut String, ind: usize) {
    s.push('\n');
    for _ in 0..ind {
        s.push(' ');
    }
}
fn esc(t: &str, s: &mut String) {
    s.push('"');
    for c in t.chars() {
        match c {
            '"' => s.push_str("\\\""),
            '\\' => s.push_str("\\\\"),
            '\n' => s.push_str("\\n"),
            '\t' => s.push_str("\\t"),
            '\r' => s.push_str("\\r"),
            c if (c as u32) < 0x20 => {
                let _ = write!(s, "\\u{:04x}", c as u32);
            }
            c => s.push(c),
        }
    }
    s.push('"');
}
fn ws(b: &[u8], p: &mut usize) {
    while *p < b.len() && (b[*p] as char).is_ascii_whitespace() {
        *p += 1;
    }
}
fn pv(b: &[u8], p: &mut usize) -> Result<J, String> {
    ws(b, p);
    if *p >= b.len() {
        return Err("eof".into());
    }
    match b[*p] {
        b'{' => {
            *p += 1;
            let mut v = vec![];
            loop {
                ws(b, p);
                if b.get(*p) == Some(&b'}') {
                    *p += 1;
                    break;
                }
                let k = match pv(b, p)? {
                    J::Str(s) => s,
                    _ => return Err("key".into()),
                };
                ws(b, p);
                if b.get(*p) != Some(&b':') {
                    return Err(format!("':' expected at {p}"));
                }
                *p += 1;
                let val = pv(b, p)?;
                v.push((k, val));
                ws(b, p);
                match b.get(*p) {
                    Some(b',') => *p += 1,
                    Some(b'}') => {
                        *p += 1;
                        break;
                    }
                    _ => return Err(format!("',' or '}}' expected at {p}")),
                }
            }
            Ok(J::Obj(v))
        }
        b'[' => {
            *p += 1;
            let mut v = vec![];
            loop {
                ws(b, p);
                if b.get(*p) == Some(&b']') {
                    *p += 1;
                    break;
                }
                v.push(pv(b, p)?);
                ws(b, p);
                match b.get(*p) {
                    Some(b',') => *p += 1,
                    Some(b']') => {
                        *p += 1;
                        break;
                    }
                    _ => return Err(format!("',' or ']' expected at {p}")),
                }
            }
            Ok(J::Arr(v))
        }
        b'"' => {
            *p += 1;
            let mut s = String::new();
            while *p < b.len() && b[*p] != b'"' {
                if b[*p] == b'\\' {
                    *p += 1;
                    match b.get(*p) {
                        Some(b'n') => s.push('\n'),
                        Some(b't') => s.push('\t'),
                        Some(b'r') => s.push('\r'),
                        Some(b'u') => {
                            let h = std::str::from_utf8(&b[*p + 1..*p + 5]).map_err(|e| e.to_string())?;
                            s.push(char::from_u32(u32::from_str_radix(h, 16).map_err(|e| e.to_string())?).unwrap_or('?'));
                            *p += 4;
                        }
                        Some(c) => s.push(*c as char),
                        None => return Err("eof in string".into()),
                    }
                    *p += 1;
                } else {
                    let start = *p;
                    while *p < b.len() && b[*p] != b'"' && b[*p] != b'\\' {
                        *p += 1;
                    }
                    s.push_str(std::str::from_utf8(&b[start..*p]).map_err(|e| e.to_string())?);
                }
            }
            *p += 1;
            Ok(J::Str(s))
        }
        b't' if b[*p..].starts_with(b"true") => {
            *p += 4;
            Ok(J::Bool(true))
        }
        b'f' if b[*p..].starts_with(b"false") => {
            *p += 5;
            Ok(J::Bool(false))
        }
        b'n' if b[*p..].starts_with(b"null") => {
            *p += 4;
            Ok(J::Null)
        }
        _ => {
            let start = *p;
            while *p < b.len() && (b[*p] == b'-' || b[*p] == b'+' || b[*p] == b'.' || b[*p] == b'e' || b[*p] == b'E' || b[*p].is_ascii_digit()) {
                *p += 1;
            }
            let t = std::str::from_utf8(&b[start..*p]).map_err(|e| e.to_string())?;
            if let Ok(i) = t.parse::<i128>() {
                Ok(J::Int(i))
            } else {
                t.parse::<f64>().map(J::Num).map_err(|_| format!("bad token at {start}"))
            }
        }
    }
}
pub fn hex(b: &[u8]) -> String {
    let mut s = String::with_capacity(2 * b.len());
    for x in b {
        let _ = write!(s, "{:02x}", x);
    }
    s
}
pub fn unhex(s: &str) -> Option<Vec<u8>> {
    if s.len() % 2 != 0 {
        return None;
    }
    (0..s.len() / 2).map(|i| u8::from_str_radix(&s[2 * i..2 * i + 2], 16).ok()).collect()
}
