//! Harness-owned block ciphers: the "environment" the modes are plugged into.
//!
//! `Toy<BS, PAR>` is a keyed bijection on `BS` bytes (any `BS` in 1..=255) whose backend declares
//! `ParBlocksSize = PAR`.  The permutation depends on the key only (never on `PAR`), is non-linear
//! w.r.t. XOR, diffuses fully in three passes, and its `*_par_blocks`/`*_tail_blocks` entry points
//! read all inputs before writing any output (what SIMD back-ends do).  Every backend call is counted
//! and, when logging is switched on, recorded in a thread-local log.
//!
//! `XorToy<BS, PAR>` is the trivial bijection `x -> x ^ pad(key)`; it is used only for the full
//! 2^32 counter sweep where the cost per block matters (the counter block is recoverable from the
//! keystream as `ks ^ pad`).
use cipher::{
    AlgorithmName, Block, BlockCipherDecBackend, BlockCipherDecClosure, BlockCipherDecrypt,
    BlockCipherEncBackend, BlockCipherEncClosure, BlockCipherEncrypt, BlockSizeUser, InOut, InOutBuf,
    Key, KeyInit, KeySizeUser, ParBlocks, ParBlocksSizeUser, array::ArraySize, consts::U4,
    crypto_common::BlockSizes,
};
use core::fmt;
use core::marker::PhantomData;
use std::cell::{Cell, RefCell};

pub const SINGLE: u8 = 1;
pub const PAR: u8 = 2;
pub const TAIL: u8 = 3;

#[derive(Clone, PartialEq, Eq, Debug)]
pub struct Call {
    /// b'E' or b'D'
    pub dir: u8,
    /// SINGLE / PAR / TAIL
    pub entry: u8,
    /// the block the cipher received
    pub input: Vec<u8>,
}

thread_local! {
    static LOG: RefCell<Option<Vec<Call>>> = const { RefCell::new(None) };
    /// [E single, E par, E tail, D single, D par, D tail] — blocks processed through each entry
    static COUNTS: Cell<[u64; 6]> = const { Cell::new([0; 6]) };
}

/// Start (and clear) the thread-local backend call log.
pub fn log_start() {
    LOG.with(|l| *l.borrow_mut() = Some(Vec::new()));
}
/// Stop logging and return what was recorded.
pub fn log_take() -> Vec<Call> {
    LOG.with(|l| l.borrow_mut().take().unwrap_or_default())
}
/// Return what was recorded so far and keep logging.
pub fn log_drain() -> Vec<Call> {
    LOG.with(|l| match l.borrow_mut().as_mut() {
        Some(v) => std::mem::take(v),
        None => Vec::new(),
    })
}
pub fn counts() -> [u64; 6] {
    COUNTS.with(|c| c.get())
}
pub fn counts_reset() {
    COUNTS.with(|c| c.set([0; 6]));
}

#[inline(never)]
fn note(dir: u8, entry: u8, input: &[u8]) {
    COUNTS.with(|c| {
        let mut v = c.get();
        v[(if dir == b'E' { 0 } else { 3 }) + (entry as usize - 1)] += 1;
        c.set(v);
    });
    LOG.with(|l| {
        if let Some(v) = l.borrow_mut().as_mut() {
            v.push(Call { dir, entry, input: input.to_vec() });
        }
    });
}

/// Fold arbitrary key bytes into the 32-bit toy key.
pub fn key32(key: &[u8]) -> u32 {
    let mut k: u32 = 0x9e37_79b9;
    for &b in key {
        k = (k ^ b as u32).wrapping_mul(0x0100_0193).rotate_left(5);
    }
    k
}

/// The toy permutation (encryption direction).
#[inline(never)]
pub fn enc_bytes(key: u32, b: &mut [u8]) {
    let n = b.len();
    for r in 0..3u32 {
        let kb = (key >> (8 * r)) as u8 ^ (key >> 24) as u8;
        let mut acc = kb.wrapping_add(r as u8).wrapping_mul(37) | 1;
        for i in 0..n {
            b[i] = b[i].wrapping_mul(5).wrapping_add(acc).rotate_left(3);
            acc = acc.wrapping_add(b[i]).wrapping_mul(3) ^ 0x5a;
        }
        b.reverse();
    }
}
/// The toy permutation (decryption direction).
#[inline(never)]
pub fn dec_bytes(key: u32, b: &mut [u8]) {
    let n = b.len();
    for r in (0..3u32).rev() {
        b.reverse();
        let kb = (key >> (8 * r)) as u8 ^ (key >> 24) as u8;
        let mut acc = kb.wrapping_add(r as u8).wrapping_mul(37) | 1;
        for i in 0..n {
            let c = b[i];
            b[i] = c.rotate_right(3).wrapping_sub(acc).wrapping_mul(205);
            acc = acc.wrapping_add(c).wrapping_mul(3) ^ 0x5a;
        }
    }
}

/// Trivial keyed bijection used by `XorToy`.
#[inline(always)]
pub fn xor_pad_byte(key: u32, i: usize) -> u8 {
    ((key >> (8 * (i % 4))) as u8).wrapping_add((i as u8).wrapping_mul(0x3d)) | 0x80
}
#[inline(never)]
pub fn xor_bytes(key: u32, b: &mut [u8]) {
    for (i, x) in b.iter_mut().enumerate() {
        *x ^= xor_pad_byte(key, i);
    }
}

/// 16 bytes with 4-byte alignment: mode structs that hold `u64`/`u128` counters next to the cipher then
/// have no padding bytes (stale stack data in padding would make the drop scan of C17 meaningless).
pub struct Toy<BS: BlockSizes, P: ArraySize> {
    pub key: u32,
    fill: [u32; 3],
    _p: PhantomData<(BS, P)>,
}
const FILL: [u32; 3] = [0x0101_0101, 0x0202_0202, 0x0303_0303];
impl<BS: BlockSizes, P: ArraySize> Clone for Toy<BS, P> {
    fn clone(&self) -> Self {
        Self { key: self.key, fill: self.fill, _p: PhantomData }
    }
}
impl<BS: BlockSizes, P: ArraySize> KeySizeUser for Toy<BS, P> {
    type KeySize = U4;
}
impl<BS: BlockSizes, P: ArraySize> KeyInit for Toy<BS, P> {
    fn new(key: &Key<Self>) -> Self {
        Self { key: key32(key), fill: FILL, _p: PhantomData }
    }
}
impl<BS: BlockSizes, P: ArraySize> BlockSizeUser for Toy<BS, P> {
    type BlockSize = BS;
}
impl<BS: BlockSizes, P: ArraySize> AlgorithmName for Toy<BS, P> {
    fn write_alg_name(f: &mut fmt::Formatter<'_>) -> fmt::Result {
        f.write_str("Toy")
    }
}

pub struct Bk<'a, BS: BlockSizes, P: ArraySize>(&'a Toy<BS, P>);
impl<BS: BlockSizes, P: ArraySize> BlockSizeUser for Bk<'_, BS, P> {
    type BlockSize = BS;
}
impl<BS: BlockSizes, P: ArraySize> ParBlocksSizeUser for Bk<'_, BS, P> {
    type ParBlocksSize = P;
}
impl<BS: BlockSizes, P: ArraySize> BlockCipherEncBackend for Bk<'_, BS, P> {
    fn encrypt_block(&self, mut block: InOut<'_, '_, Block<Self>>) {
        let mut t = block.clone_in();
        note(b'E', SINGLE, &t);
        enc_bytes(self.0.key, &mut t);
        *block.get_out() = t;
    }
    fn encrypt_par_blocks(&self, mut blocks: InOut<'_, '_, ParBlocks<Self>>) {
        // read all inputs first, then write all outputs
        let mut t = blocks.clone_in();
        for b in t.iter_mut() {
            note(b'E', PAR, b);
            enc_bytes(self.0.key, b);
        }
        *blocks.get_out() = t;
    }
    fn encrypt_tail_blocks(&self, mut blocks: InOutBuf<'_, '_, Block<Self>>) {
        assert!(blocks.len() < P::USIZE, "toy: tail batch must be shorter than the parallel width");
        let mut t: Vec<Block<Self>> = blocks.get_in().to_vec();
        for b in t.iter_mut() {
            note(b'E', TAIL, b);
            enc_bytes(self.0.key, b);
        }
        blocks.get_out().clone_from_slice(&t);
    }
}
impl<BS: BlockSizes, P: ArraySize> BlockCipherDecBackend for Bk<'_, BS, P> {
    fn decrypt_block(&self, mut block: InOut<'_, '_, Block<Self>>) {
        let mut t = block.clone_in();
        note(b'D', SINGLE, &t);
        dec_bytes(self.0.key, &mut t);
        *block.get_out() = t;
    }
    fn decrypt_par_blocks(&self, mut blocks: InOut<'_, '_, ParBlocks<Self>>) {
        let mut t = blocks.clone_in();
        for b in t.iter_mut() {
            note(b'D', PAR, b);
            dec_bytes(self.0.key, b);
        }
        *blocks.get_out() = t;
    }
    fn decrypt_tail_blocks(&self, mut blocks: InOutBuf<'_, '_, Block<Self>>) {
        assert!(blocks.len() < P::USIZE, "toy: tail batch must be shorter than the parallel width");
        let mut t: Vec<Block<Self>> = blocks.get_in().to_vec();
        for b in t.iter_mut() {
            note(b'D', TAIL, b);
            dec_bytes(self.0.key, b);
        }
        blocks.get_out().clone_from_slice(&t);
    }
}
impl<BS: BlockSizes, P: ArraySize> BlockCipherEncrypt for Toy<BS, P> {
    fn encrypt_with_backend(&self, f: impl BlockCipherEncClosure<BlockSize = BS>) {
        f.call(&Bk(self))
    }
}
impl<BS: BlockSizes, P: ArraySize> BlockCipherDecrypt for Toy<BS, P> {
    fn decrypt_with_backend(&self, f: impl BlockCipherDecClosure<BlockSize = BS>) {
        f.call(&Bk(self))
    }
}

// ---------------------------------------------------------------------------------------------
// XorToy: cheap, unlogged

pub struct XorToy<BS: BlockSizes, P: ArraySize> {
    pub key: u32,
    _p: PhantomData<(BS, P)>,
}
impl<BS: BlockSizes, P: ArraySize> Clone for XorToy<BS, P> {
    fn clone(&self) -> Self {
        Self { key: self.key, _p: PhantomData }
    }
}
impl<BS: BlockSizes, P: ArraySize> KeySizeUser for XorToy<BS, P> {
    type KeySize = U4;
}
impl<BS: BlockSizes, P: ArraySize> KeyInit for XorToy<BS, P> {
    fn new(key: &Key<Self>) -> Self {
        Self { key: key32(key), _p: PhantomData }
    }
}
impl<BS: BlockSizes, P: ArraySize> BlockSizeUser for XorToy<BS, P> {
    type BlockSize = BS;
}
impl<BS: BlockSizes, P: ArraySize> AlgorithmName for XorToy<BS, P> {
    fn write_alg_name(f: &mut fmt::Formatter<'_>) -> fmt::Result {
        f.write_str("XorToy")
    }
}
pub struct XBk<'a, BS: BlockSizes, P: ArraySize>(&'a XorToy<BS, P>);
impl<BS: BlockSizes, P: ArraySize> BlockSizeUser for XBk<'_, BS, P> {
    type BlockSize = BS;
}
impl<BS: BlockSizes, P: ArraySize> ParBlocksSizeUser for XBk<'_, BS, P> {
    type ParBlocksSize = P;
}
impl<BS: BlockSizes, P: ArraySize> BlockCipherEncBackend for XBk<'_, BS, P> {
    #[inline(always)]
    fn encrypt_block(&self, mut block: InOut<'_, '_, Block<Self>>) {
        let mut t = block.clone_in();
        xor_bytes(self.0.key, &mut t);
        *block.get_out() = t;
    }
}
impl<BS: BlockSizes, P: ArraySize> BlockCipherDecBackend for XBk<'_, BS, P> {
    #[inline(always)]
    fn decrypt_block(&self, mut block: InOut<'_, '_, Block<Self>>) {
        let mut t = block.clone_in();
        xor_bytes(self.0.key, &mut t);
        *block.get_out() = t;
    }
}
impl<BS: BlockSizes, P: ArraySize> BlockCipherEncrypt for XorToy<BS, P> {
    fn encrypt_with_backend(&self, f: impl BlockCipherEncClosure<BlockSize = BS>) {
        f.call(&XBk(self))
    }
}
impl<BS: BlockSizes, P: ArraySize> BlockCipherDecrypt for XorToy<BS, P> {
    fn decrypt_with_backend(&self, f: impl BlockCipherDecClosure<BlockSize = BS>) {
        f.call(&XBk(self))
    }
}
