//! Object-safe view of the public API of the nine crates.  `sut` implements these traits with thin
//! 1:1 adapters; `checks` explores through them.  Nothing here depends on `/repo`.

/// Call form of an operation.
#[derive(Clone, Copy, PartialEq, Eq, Debug, Hash, PartialOrd, Ord)]
pub enum Kind {
    /// in place (`&mut` buffer); adapters ignore `inp` and operate on `out`, which the caller pre-fills with the input
    InPlace,
    /// buffer to buffer (`*_b2b`)
    B2b,
    /// `InOut`/`InOutBuf` built from two separate buffers (`*_inout`)
    InOut,
    /// the `*_inout` entry point on ONE buffer (`buf.into()`): in place as far as the caller is concerned, but a
    /// different public method from the `&mut` form; adapters ignore `inp` and operate on `out` like `InPlace`
    Alias,
}
/// A closure *script*: a sequence of backend calls made inside one `*_with_backend` / `process_with_backend` session.
/// Op codes: 0 / 1 = one full parallel group through `*_par_blocks` / `*_par_blocks_inplace`; 2 / 3 = one block through
/// `*_block` / `*_block_inplace`; 4 / 5 = a tail of one block through `*_tail_blocks` / `*_tail_blocks_inplace`; 6 / 7 = a
/// tail of two blocks.  Tails are capped at width-1 blocks (the trait's contract) and vanish for width 1.
/// Adding 0x10 to an even op code (block modes only) makes that call buffer to buffer: the input is a private copy and
/// the caller's buffer, poisoned first, is the output.
pub fn script_op_blocks(op: u8, width: usize) -> usize {
    match (op & 0x0f) / 2 {
        0 => width,
        1 => 1,
        2 => 1.min(width.saturating_sub(1)),
        _ => 2.min(width.saturating_sub(1)),
    }
}
/// number of blocks a script consumes on a backend of the given width
pub fn script_blocks(script: &[u8], width: usize) -> usize {
    script.iter().map(|&op| script_op_blocks(op, width)).sum()
}
pub const KINDS: [Kind; 4] = [Kind::InPlace, Kind::B2b, Kind::InOut, Kind::Alias];
impl Kind {
    /// does the call read its input from the output buffer?
    pub fn in_place(self) -> bool {
        matches!(self, Kind::InPlace | Kind::Alias)
    }
    pub fn s(self) -> &'static str {
        match self {
            Kind::InPlace => "inplace",
            Kind::B2b => "b2b",
            Kind::InOut => "inout",
            Kind::Alias => "inout-one-buffer",
        }
    }
    pub fn parse(s: &str) -> Option<Kind> {
        KINDS.iter().copied().find(|k| k.s() == s)
    }
}

#[derive(Clone, Copy, PartialEq, Eq, Debug, Hash, PartialOrd, Ord)]
pub enum Dir {
    Enc,
    Dec,
}
impl Dir {
    pub fn s(self) -> &'static str {
        match self {
            Dir::Enc => "enc",
            Dir::Dec => "dec",
        }
    }
    pub fn parse(s: &str) -> Option<Dir> {
        match s {
            "enc" => Some(Dir::Enc),
            "dec" => Some(Dir::Dec),
            _ => None,
        }
    }
}

/// `Ok(())` = the API returned success, `Err(())` = it returned its error value.
pub type R = Result<(), ()>;

#[derive(Clone, Copy, PartialEq, Eq, Debug)]
pub enum Pad {
    Pkcs7,
    Iso7816,
    NoPadding,
    AnsiX923,
}
pub const PADS: [Pad; 4] = [Pad::Pkcs7, Pad::Iso7816, Pad::NoPadding, Pad::AnsiX923];
impl Pad {
    pub fn s(self) -> &'static str {
        match self {
            Pad::Pkcs7 => "Pkcs7",
            Pad::Iso7816 => "Iso7816",
            Pad::NoPadding => "NoPadding",
            Pad::AnsiX923 => "AnsiX923",
        }
    }
    pub fn parse(s: &str) -> Option<Pad> {
        PADS.iter().copied().find(|k| k.s() == s)
    }
}

/// How an object is constructed.
#[derive(Clone, Copy, PartialEq, Eq, Debug)]
pub enum Ctor {
    /// `InnerIvInit::inner_iv_init(C::new(key), iv)` (`InnerInit::inner_init` for the ECB-CTS types)
    Inner,
    /// `KeyIvInit::new(key, iv)` / `KeyInit::new(key)`
    KeyIv,
    /// `KeyIvInit::new_from_slices(key, iv)` / `KeyInit::new_from_slice(key)` — fallible
    Slices,
    /// `InnerIvInit::inner_iv_slice_init(C::new(key), iv)` — fallible
    InnerSlice,
}
pub const CTORS: [Ctor; 4] = [Ctor::Inner, Ctor::KeyIv, Ctor::Slices, Ctor::InnerSlice];
impl Ctor {
    pub fn s(self) -> &'static str {
        match self {
            Ctor::Inner => "inner_iv_init",
            Ctor::KeyIv => "new",
            Ctor::Slices => "new_from_slices",
            Ctor::InnerSlice => "inner_iv_slice_init",
        }
    }
    pub fn parse(s: &str) -> Option<Ctor> {
        CTORS.iter().copied().find(|k| k.s() == s)
    }
}

/// Integer type used for a byte position (`SeekNum`).
#[derive(Clone, Copy, PartialEq, Eq, Debug, Hash, PartialOrd, Ord)]
pub enum SeekTy {
    I32,
    U32,
    U64,
    U128,
    Usize,
}
pub const SEEK_TYS: [SeekTy; 5] = [SeekTy::I32, SeekTy::U32, SeekTy::U64, SeekTy::U128, SeekTy::Usize];
impl SeekTy {
    pub fn s(self) -> &'static str {
        match self {
            SeekTy::I32 => "i32",
            SeekTy::U32 => "u32",
            SeekTy::U64 => "u64",
            SeekTy::U128 => "u128",
            SeekTy::Usize => "usize",
        }
    }
    pub fn parse(s: &str) -> Option<SeekTy> {
        SEEK_TYS.iter().copied().find(|k| k.s() == s)
    }
    /// largest non-negative value representable
    pub fn max(self) -> u128 {
        match self {
            SeekTy::I32 => i32::MAX as u128,
            SeekTy::U32 => u32::MAX as u128,
            SeekTy::U64 => u64::MAX as u128,
            SeekTy::U128 => u128::MAX,
            SeekTy::Usize => usize::MAX as u128,
        }
    }
}

/// A block-mode object with a fixed direction (`BlockModeEncrypt` or `BlockModeDecrypt`).
pub trait BlockMode {
    /// the adapter itself, for `clone_from_obj`
    /// identity given by the recording proxy (0 for a bare adapter)
    fn obj_id(&self) -> usize {
        0
    }
    fn as_any(&self) -> &dyn std::any::Any;
    /// `Clone::clone_from(self, src)`; false if `src` is not the same concrete type
    fn clone_from_obj(&mut self, src: &dyn BlockMode) -> bool;
    /// `*_block`, `*_block_b2b`, `*_block_inout` on one mode block
    fn one(&mut self, k: Kind, inp: &[u8], out: &mut [u8]);
    /// `*_blocks`, `*_blocks_b2b`, `*_blocks_inout`; lengths are multiples of the mode block size.
    /// `Err` when the API reports unequal lengths.
    fn many(&mut self, k: Kind, inp: &[u8], out: &mut [u8]) -> R;
    /// `encrypt_with_backend` / `decrypt_with_backend` with a CALLER-SUPPLIED closure, in place on `buf`.  `mode`:
    /// 1 = full groups through `*_par_blocks`, remainder block by block; 2 = remainder through `*_tail_blocks` only if
    /// non-empty; 3 / 4 = the same through the `*_inplace` backend methods; 5 = every block through `*_block`;
    /// 6 = one block through `*_block_inplace` first, then as 2 on the rest; 7 = first half buffer to buffer and second
    /// half through the `*_inplace` methods inside one backend session; 8 = the other way round
    fn many_closure(&mut self, mode: u8, buf: &mut [u8]);
    /// `*_with_backend` with a caller-supplied closure that executes `script` on consecutive blocks of `buf` in ONE backend
    /// session (see `script_blocks`).  The width that counts is the MODE backend's (1 for the inherently sequential
    /// directions), which only the closure sees: `buf` must hold at least `script_blocks(script, cipher width)` blocks and the
    /// number of blocks actually processed is returned; the rest of `buf` is left alone
    fn many_script(&mut self, script: &[u8], buf: &mut [u8]) -> usize;
    fn iv_state(&self) -> Vec<u8>;
    fn dup(&self) -> Box<dyn BlockMode>;
    fn debug(&self) -> String;
    /// Padded operation, consuming the object.
    /// Enc: InPlace = `encrypt_padded(buf, msg_len)` with `buf = out` pre-filled (`inp` gives msg_len),
    ///      B2b = `encrypt_padded_b2b(inp, out)`, InOut = `encrypt_padded_vec(inp)` (out replaced).
    /// Dec: InPlace = `decrypt_padded(out)`, B2b = `decrypt_padded_b2b(inp, out)`, InOut = `decrypt_padded_vec(inp)`.
    /// On success returns the length of the returned slice; for the slice forms the returned slice is
    /// always a prefix of `out` and its content is left there.
    fn padded(self: Box<Self>, pad: Pad, k: Kind, inp: &[u8], out: &mut Vec<u8>) -> Result<usize, ()>;
    /// `AsyncStreamCipher::{encrypt,encrypt_b2b,encrypt_inout}` (or decrypt); `None` when the type is not one.
    fn oneshot(self: Box<Self>, k: Kind, inp: &[u8], out: &mut [u8]) -> Option<R>;
    /// move the object into zeroed heap storage, run `drop_in_place`, return the bytes left behind and the bytes before
    fn drop_scan(self: Box<Self>) -> (Vec<u8>, Vec<u8>);
}

pub struct BlockModeDesc {
    /// "cbc", "pcbc", "ige", "cfb", "cfb8", "ofb"
    pub mode: &'static str,
    pub dir: Dir,
    /// Rust path of the type, for reports
    pub ty: String,
    /// mode block size (1 for cfb8)
    pub mbs: usize,
    pub iv_len: usize,
    pub make: fn(ctor: Ctor, key: &[u8], iv: &[u8]) -> Result<Box<dyn BlockMode>, ()>,
    pub alg_name: fn() -> String,
}

/// `StreamCipherCore` (+ `StreamCipherSeekCore`, `IvState`) object.
pub trait Core {
    /// identity given by the recording proxy (0 for a bare adapter)
    fn obj_id(&self) -> usize {
        0
    }
    fn as_any(&self) -> &dyn std::any::Any;
    /// `Clone::clone_from(self, src)`; false if the type is not `Clone` or `src` is another type
    fn clone_from_obj(&mut self, src: &dyn Core) -> bool;
    fn remaining_blocks(&self) -> Option<usize>;
    /// InPlace = `apply_keystream_blocks`, B2b/InOut = `apply_keystream_blocks_inout` (Err when `InOutBuf::new` refuses)
    fn apply_blocks(&mut self, k: Kind, inp: &[u8], out: &mut [u8]) -> R;
    /// `apply_keystream_block_inout` on one block
    fn apply_block(&mut self, k: Kind, inp: &[u8], out: &mut [u8]);
    fn write_block(&mut self, out: &mut [u8]);
    fn write_blocks(&mut self, out: &mut [u8]);
    /// `process_with_backend` with a caller-supplied closure writing keystream blocks; `mode` as for
    /// `BlockMode::many_closure` (the stream backend has no `*_inplace` methods: 3 / 4 behave as 1 / 2)
    fn write_blocks_closure(&mut self, mode: u8, out: &mut [u8]);
    /// `process_with_backend` with a caller-supplied closure executing `script` (see `script_blocks`; the stream backend has
    /// no in-place variants: odd op codes behave like the even ones); returns the number of blocks written
    fn write_script(&mut self, script: &[u8], out: &mut [u8]) -> usize;
    /// `try_apply_keystream_partial`, consuming
    fn partial(self: Box<Self>, k: Kind, inp: &[u8], out: &mut [u8]) -> R;
    /// `None` when the core is not seekable
    fn get_block_pos(&self) -> Option<u128>;
    /// `false` when not seekable or the value does not fit the counter type
    fn set_block_pos(&mut self, p: u128) -> bool;
    fn iv_state(&self) -> Vec<u8>;
    fn dup(&self) -> Option<Box<dyn Core>>;
    fn debug(&self) -> String;
    /// `StreamCipherCoreWrapper::from_core`
    fn into_stream(self: Box<Self>) -> Box<dyn Stream>;
    fn drop_scan(self: Box<Self>) -> (Vec<u8>, Vec<u8>);
}

pub struct CoreDesc {
    /// "ofb", "ctr32be", "ctr32le", "ctr64be", "ctr64le", "ctr128be", "ctr128le", "belt"
    pub mode: &'static str,
    pub ty: String,
    /// counter width in bits (0 for ofb)
    pub w: u32,
    pub be: bool,
    pub seekable: bool,
    pub clonable: bool,
    pub make: fn(ctor: Ctor, key: &[u8], iv: &[u8]) -> Result<Box<dyn Core>, ()>,
    /// the byte-level alias constructed directly (`KeyIvInit` on the wrapper)
    pub make_stream: fn(ctor: Ctor, key: &[u8], iv: &[u8]) -> Result<Box<dyn Stream>, ()>,
    pub alg_name: fn() -> String,
}

/// Byte-level stream cipher (`StreamCipherCoreWrapper<..>`): `StreamCipher` + `StreamCipherSeek`.
pub trait Stream {
    /// identity given by the recording proxy (0 for a bare adapter)
    fn obj_id(&self) -> usize {
        0
    }
    fn as_any(&self) -> &dyn std::any::Any;
    fn clone_from_obj(&mut self, src: &dyn Stream) -> bool;
    /// InPlace = `try_apply_keystream`, B2b = `apply_keystream_b2b`, InOut = `try_apply_keystream_inout`
    fn apply(&mut self, k: Kind, inp: &[u8], out: &mut [u8]) -> R;
    /// `try_seek::<T>(p)`; `None` if the type is not seekable or `p` is not representable in `T`
    fn seek(&mut self, t: SeekTy, p: u128) -> Option<R>;
    /// `try_current_pos::<T>()`; `None` if not seekable
    fn pos(&self, t: SeekTy) -> Option<Result<u128, ()>>;
    fn core_remaining(&self) -> Option<usize>;
    fn core_block_pos(&self) -> Option<u128>;
    fn core_iv_state(&self) -> Vec<u8>;
    fn dup(&self) -> Option<Box<dyn Stream>>;
    fn debug(&self) -> String;
    fn drop_scan(self: Box<Self>) -> (Vec<u8>, Vec<u8>);
}

/// Buffered CFB (`BufEncryptor` / `BufDecryptor`).
pub trait BufCfb {
    /// identity given by the recording proxy (0 for a bare adapter)
    fn obj_id(&self) -> usize {
        0
    }
    fn as_any(&self) -> &dyn std::any::Any;
    fn clone_from_obj(&mut self, src: &dyn BufCfb) -> bool;
    fn process(&mut self, data: &mut [u8]);
    fn get_state(&self) -> (Vec<u8>, usize);
    fn dup(&self) -> Box<dyn BufCfb>;
    fn debug(&self) -> String;
    fn drop_scan(self: Box<Self>) -> (Vec<u8>, Vec<u8>);
}
pub struct BufCfbDesc {
    pub dir: Dir,
    pub ty: String,
    pub make: fn(ctor: Ctor, key: &[u8], iv: &[u8]) -> Result<Box<dyn BufCfb>, ()>,
    pub from_state: fn(key: &[u8], block: &[u8], pos: usize) -> Box<dyn BufCfb>,
    pub alg_name: fn() -> String,
}

/// Ciphertext-stealing one-shot types.
pub struct CtsDesc {
    /// "CbcCs1" ... "EcbCs3"
    pub name: &'static str,
    pub ty: String,
    pub cbc: bool,
    pub variant: u8,
    /// run one operation on a freshly constructed (optionally cloned-first) object
    pub run: fn(ctor: Ctor, clone_first: bool, dir: Dir, k: Kind, key: &[u8], iv: &[u8], inp: &[u8], out: &mut [u8]) -> Result<R, ()>,
}

/// One cipher configuration (cipher type incl. block size and parallel width) and every object kind
/// the workspace offers over it.
pub struct Cfg {
    pub name: String,
    /// "toy", "xortoy", or a real cipher name
    pub cipher: &'static str,
    pub bs: usize,
    /// declared parallel width of the cipher backend (0 = unknown / hardware dependent)
    pub par: usize,
    pub key_len: usize,
    /// reference block cipher, independent of /repo: E and D on one block
    pub enc: fn(key: &[u8], block: &mut [u8]),
    pub dec: fn(key: &[u8], block: &mut [u8]),
    pub block_modes: Vec<BlockModeDesc>,
    pub cores: Vec<CoreDesc>,
    pub bufcfb: Vec<BufCfbDesc>,
    pub cts: Vec<CtsDesc>,
    /// membership: 'q' quick set, 't' thorough set, 's' all-sizes sweep, 'x' counter sweep
    pub sets: &'static str,
}
impl Cfg {
    pub fn e(&self, key: &[u8], b: &[u8]) -> Vec<u8> {
        let mut v = b.to_vec();
        (self.enc)(key, &mut v);
        v
    }
    pub fn d(&self, key: &[u8], b: &[u8]) -> Vec<u8> {
        let mut v = b.to_vec();
        (self.dec)(key, &mut v);
        v
    }
    pub fn block_mode(&self, mode: &str, dir: Dir) -> Option<&BlockModeDesc> {
        self.block_modes.iter().find(|m| m.mode == mode && m.dir == dir)
    }
    pub fn core(&self, mode: &str) -> Option<&CoreDesc> {
        self.cores.iter().find(|m| m.mode == mode)
    }
    pub fn is_toy(&self) -> bool {
        self.cipher == "toy"
    }
}

pub struct Registry {
    pub cfgs: Vec<Cfg>,
    /// was the `sut` crate built with the repo crates' `zeroize` feature?
    pub zeroize: bool,
    pub sweep: bool,
}
