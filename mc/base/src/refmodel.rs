//! Boring reference models written from the defining documents (SP 800-38A and its Addendum,
//! RFC 3962, STB 34.101.31, GOST R 34.13, the OpenSSL IGE convention).  Plain `Vec<u8>`, one block at
//! a time, no batching, no in-place tricks, no code shared with `/repo`.
use crate::api::Cfg;

/// A keyed reference block cipher: the configuration's raw `E`/`D`.
pub struct Ciph<'a> {
    pub cfg: &'a Cfg,
    pub key: Vec<u8>,
}
impl<'a> Ciph<'a> {
    pub fn new(cfg: &'a Cfg, key: &[u8]) -> Self {
        Self { cfg, key: key.to_vec() }
    }
    pub fn bs(&self) -> usize {
        self.cfg.bs
    }
    pub fn e(&self, b: &[u8]) -> Vec<u8> {
        assert_eq!(b.len(), self.cfg.bs);
        self.cfg.e(&self.key, b)
    }
    pub fn d(&self, b: &[u8]) -> Vec<u8> {
        assert_eq!(b.len(), self.cfg.bs);
        self.cfg.d(&self.key, b)
    }
}

pub fn x(a: &[u8], b: &[u8]) -> Vec<u8> {
    assert_eq!(a.len(), b.len());
    a.iter().zip(b).map(|(p, q)| p ^ q).collect()
}

// ---- CBC: C_i = E(P_i ^ C_{i-1}), C_0 = IV.  Returns (output, chaining value) -----------------
pub fn cbc_enc(c: &Ciph, iv: &[u8], pt: &[u8]) -> (Vec<u8>, Vec<u8>) {
    let mut prev = iv.to_vec();
    let mut out = vec![];
    for p in pt.chunks(c.bs()) {
        let ct = c.e(&x(p, &prev));
        out.extend(&ct);
        prev = ct;
    }
    (out, prev)
}
pub fn cbc_dec(c: &Ciph, iv: &[u8], ct: &[u8]) -> (Vec<u8>, Vec<u8>) {
    let mut prev = iv.to_vec();
    let mut out = vec![];
    for b in ct.chunks(c.bs()) {
        out.extend(x(&c.d(b), &prev));
        prev = b.to_vec();
    }
    (out, prev)
}
// ---- PCBC: C_i = E(P_i ^ S_{i-1}), S_0 = IV, S_i = P_i ^ C_i ------------------------------------
pub fn pcbc_enc(c: &Ciph, iv: &[u8], pt: &[u8]) -> (Vec<u8>, Vec<u8>) {
    let mut s = iv.to_vec();
    let mut out = vec![];
    for p in pt.chunks(c.bs()) {
        let ct = c.e(&x(p, &s));
        s = x(p, &ct);
        out.extend(&ct);
    }
    (out, s)
}
pub fn pcbc_dec(c: &Ciph, iv: &[u8], ct: &[u8]) -> (Vec<u8>, Vec<u8>) {
    let mut s = iv.to_vec();
    let mut out = vec![];
    for b in ct.chunks(c.bs()) {
        let p = x(&c.d(b), &s);
        s = x(&p, b);
        out.extend(&p);
    }
    (out, s)
}
// ---- IGE: C_i = E(P_i ^ C_{i-1}) ^ P_{i-1}; IV = C_0 || P_0 ------------------------------------
pub fn ige_enc(c: &Ciph, iv: &[u8], pt: &[u8]) -> (Vec<u8>, Vec<u8>) {
    let bs = c.bs();
    let mut cprev = iv[..bs].to_vec();
    let mut pprev = iv[bs..].to_vec();
    let mut out = vec![];
    for p in pt.chunks(bs) {
        let ct = x(&c.e(&x(p, &cprev)), &pprev);
        pprev = p.to_vec();
        cprev = ct.clone();
        out.extend(&ct);
    }
    (out, [cprev, pprev].concat())
}
pub fn ige_dec(c: &Ciph, iv: &[u8], ct: &[u8]) -> (Vec<u8>, Vec<u8>) {
    let bs = c.bs();
    let mut cprev = iv[..bs].to_vec();
    let mut pprev = iv[bs..].to_vec();
    let mut out = vec![];
    for b in ct.chunks(bs) {
        let p = x(&c.d(&x(b, &pprev)), &cprev);
        pprev = p.clone();
        cprev = b.to_vec();
        out.extend(&p);
    }
    (out, [cprev, pprev].concat())
}
// ---- CFB (full block feedback), any byte length; chaining value = last full ciphertext block ----
pub fn cfb_enc(c: &Ciph, iv: &[u8], pt: &[u8]) -> (Vec<u8>, Vec<u8>) {
    let bs = c.bs();
    let mut prev = iv.to_vec();
    let mut out = vec![];
    for p in pt.chunks(bs) {
        let ks = c.e(&prev);
        let ct = x(p, &ks[..p.len()]);
        out.extend(&ct);
        if ct.len() == bs {
            prev = ct;
        }
    }
    (out, prev)
}
pub fn cfb_dec(c: &Ciph, iv: &[u8], ct: &[u8]) -> (Vec<u8>, Vec<u8>) {
    let bs = c.bs();
    let mut prev = iv.to_vec();
    let mut out = vec![];
    for b in ct.chunks(bs) {
        let ks = c.e(&prev);
        out.extend(x(b, &ks[..b.len()]));
        if b.len() == bs {
            prev = b.to_vec();
        }
    }
    (out, prev)
}
// ---- CFB-8: c_j = p_j ^ E(S_j)[0]; S_{j+1} = S_j[1..] || c_j ----------------------------------
pub fn cfb8_enc(c: &Ciph, iv: &[u8], pt: &[u8]) -> (Vec<u8>, Vec<u8>) {
    let mut s = iv.to_vec();
    let mut out = vec![];
    for &p in pt {
        let ct = p ^ c.e(&s)[0];
        out.push(ct);
        s.remove(0);
        s.push(ct);
    }
    (out, s)
}
pub fn cfb8_dec(c: &Ciph, iv: &[u8], ct: &[u8]) -> (Vec<u8>, Vec<u8>) {
    let mut s = iv.to_vec();
    let mut out = vec![];
    for &b in ct {
        out.push(b ^ c.e(&s)[0]);
        s.remove(0);
        s.push(b);
    }
    (out, s)
}
// ---- OFB: O_i = E(O_{i-1}), O_0 = IV; chaining value = last keystream block generated ----------
pub fn ofb(c: &Ciph, iv: &[u8], data: &[u8]) -> (Vec<u8>, Vec<u8>) {
    let mut o = iv.to_vec();
    let mut out = vec![];
    for p in data.chunks(c.bs()) {
        o = c.e(&o);
        out.extend(x(p, &o[..p.len()]));
    }
    (out, o)
}
/// OFB keystream block with 0-based index `i` (O_{i+1})
pub fn ofb_ks_block(c: &Ciph, iv: &[u8], i: usize) -> Vec<u8> {
    let mut o = iv.to_vec();
    for _ in 0..=i {
        o = c.e(&o);
    }
    o
}

// ---- CTR flavours ----------------------------------------------------------------------------
/// Counter block for a flavour with a `w`-bit counter (`be`: big endian in the last w/8 bytes,
/// else little endian in the first w/8 bytes) at block index `i`: field <- (field + i) mod 2^w,
/// incremented byte-wise with an explicit carry so that nothing is shared with an integer add in `/repo`.
pub fn ctr_block(iv: &[u8], w: u32, be: bool, i: u128) -> Vec<u8> {
    let n = (w / 8) as usize;
    let bs = iv.len();
    let mut b = iv.to_vec();
    let mut carry: u16 = 0;
    for j in 0..n {
        // j-th least significant byte of the field
        let idx = if be { bs - 1 - j } else { j };
        let add = if j < 16 { (i >> (8 * j)) as u8 } else { 0 };
        let s = b[idx] as u16 + add as u16 + carry;
        b[idx] = s as u8;
        carry = s >> 8;
    }
    b
}
/// number of keystream blocks one (key, IV) provides: 2^w - 1  (as u128; for w = 128 this is u128::MAX)
pub fn ctr_limit_blocks(w: u32) -> u128 {
    if w == 128 { u128::MAX } else { (1u128 << w) - 1 }
}
/// keystream block `i` of a CTR flavour
pub fn ctr_ks_block(c: &Ciph, iv: &[u8], w: u32, be: bool, i: u128) -> Vec<u8> {
    c.e(&ctr_block(iv, w, be, i))
}
/// `len` keystream bytes starting at (block, byte)
pub fn ctr_ks(c: &Ciph, iv: &[u8], w: u32, be: bool, mut block: u128, mut byte: usize, len: usize) -> Vec<u8> {
    let bs = c.bs();
    let mut out = Vec::with_capacity(len);
    let mut cur: Option<Vec<u8>> = None;
    while out.len() < len {
        let blk = cur.get_or_insert_with(|| ctr_ks_block(c, iv, w, be, block));
        out.push(blk[byte]);
        byte += 1;
        if byte == bs {
            byte = 0;
            block = block.wrapping_add(1);
            cur = None;
        }
    }
    out
}

// ---- BelT-CTR: s_0 = E(IV) as LE u128; ks block i (0-based) = E(s_0 + i + 1 mod 2^128) LE --------
pub fn le_add(bytes: &[u8], add: u128) -> Vec<u8> {
    // 128-bit little-endian add, byte-wise with carry
    let mut b = bytes.to_vec();
    let mut carry: u16 = 0;
    for j in 0..16 {
        let s = b[j] as u16 + ((add >> (8 * j)) as u8) as u16 + carry;
        b[j] = s as u8;
        carry = s >> 8;
    }
    b
}
pub fn belt_s0(c: &Ciph, iv: &[u8]) -> Vec<u8> {
    c.e(iv)
}
pub fn belt_counter_block(c: &Ciph, iv: &[u8], i: u128) -> Vec<u8> {
    // s_0 + i + 1 mod 2^128: add i, then add 1 (each wraps on its own)
    le_add(&le_add(&belt_s0(c, iv), i), 1)
}
pub fn belt_ks_block(c: &Ciph, iv: &[u8], i: u128) -> Vec<u8> {
    c.e(&belt_counter_block(c, iv, i))
}
pub fn belt_ks(c: &Ciph, iv: &[u8], mut block: u128, mut byte: usize, len: usize) -> Vec<u8> {
    let mut out = Vec::with_capacity(len);
    let mut cur: Option<Vec<u8>> = None;
    while out.len() < len {
        let blk = cur.get_or_insert_with(|| belt_ks_block(c, iv, block));
        out.push(blk[byte]);
        byte += 1;
        if byte == 16 {
            byte = 0;
            block = block.wrapping_add(1);
            cur = None;
        }
    }
    out
}

// ---- Ciphertext stealing, NIST SP 800-38A Addendum ---------------------------------------------
/// `iv = Some(..)`: CBC-CSv, `None`: ECB-CSv.  `pt.len() >= bs`.
pub fn cts_enc(c: &Ciph, iv: Option<&[u8]>, variant: u8, pt: &[u8]) -> Vec<u8> {
    let bs = c.bs();
    let l = pt.len();
    assert!(l >= bs);
    let n = l.div_ceil(bs);
    let d = l - (n - 1) * bs; // byte length of the final block, 1..=bs
    if n == 1 {
        // a one-block message is plain CBC / raw E in all three variants
        return match iv {
            Some(iv) => cbc_enc(c, iv, pt).0,
            None => c.e(pt),
        };
    }
    let blocks: Vec<Vec<u8>> = match iv {
        Some(iv) => {
            let mut padded = pt.to_vec();
            padded.resize(n * bs, 0);
            cbc_enc(c, iv, &padded).0.chunks(bs).map(|b| b.to_vec()).collect()
        }
        None => {
            // ECB: first n-1 blocks raw; final = E(P_n* || tail of C_{n-1})
            let mut cs: Vec<Vec<u8>> = pt[..(n - 1) * bs].chunks(bs).map(|p| c.e(p)).collect();
            let mut last = pt[(n - 1) * bs..].to_vec();
            last.extend(&cs[n - 2][d..]);
            cs.push(c.e(&last));
            cs
        }
    };
    let mut out: Vec<u8> = blocks[..n - 2].concat();
    let cn1 = &blocks[n - 2][..d]; // C*_{n-1}
    let cn = &blocks[n - 1];
    let swap = match variant {
        1 => false,
        2 => d < bs,
        3 => true,
        _ => unreachable!(),
    };
    if swap {
        out.extend(cn);
        out.extend(cn1);
    } else {
        out.extend(cn1);
        out.extend(cn);
    }
    out
}
/// Inverse, defined on *any* byte string of length >= bs.
pub fn cts_dec(c: &Ciph, iv: Option<&[u8]>, variant: u8, ct: &[u8]) -> Vec<u8> {
    let bs = c.bs();
    let l = ct.len();
    assert!(l >= bs);
    let n = l.div_ceil(bs);
    let d = l - (n - 1) * bs;
    if n == 1 {
        return match iv {
            Some(iv) => cbc_dec(c, iv, ct).0,
            None => c.d(ct),
        };
    }
    let head = &ct[..(n - 2) * bs];
    let rest = &ct[(n - 2) * bs..]; // bs + d bytes
    let swapped = match variant {
        1 => false,
        2 => d < bs,
        3 => true,
        _ => unreachable!(),
    };
    // C*_{n-1} (d bytes) and C_n (bs bytes)
    let (cn1s, cn): (&[u8], &[u8]) = if swapped { (&rest[bs..], &rest[..bs]) } else { (&rest[..d], &rest[d..]) };
    match iv {
        Some(iv) => {
            let (mut out, chain) = cbc_dec(c, iv, head);
            // Z = D(C_n) = (P_n* || 0) ^ C_{n-1}  =>  P_n* = Z[..d] ^ C*_{n-1}, C_{n-1} = C*_{n-1} || Z[d..]
            let z = c.d(cn);
            let pn = x(&z[..d], cn1s);
            let mut cn1 = cn1s.to_vec();
            cn1.extend(&z[d..]);
            let pn1 = x(&c.d(&cn1), &chain);
            out.extend(pn1);
            out.extend(pn);
            out
        }
        None => {
            let mut out: Vec<u8> = head.chunks(bs).flat_map(|b| c.d(b)).collect();
            // Z = D(C_n) = P_n* || tail of C_{n-1}
            let z = c.d(cn);
            let mut cn1 = cn1s.to_vec();
            cn1.extend(&z[d..]);
            out.extend(c.d(&cn1));
            out.extend(&z[..d]);
            out
        }
    }
}

// ---- paddings (block-padding crate semantics as documented) ------------------------------------
use crate::api::Pad;
/// padded message, or None if the padding cannot pad this length (NoPadding on a non-multiple)
pub fn pad(p: Pad, bs: usize, msg: &[u8]) -> Option<Vec<u8>> {
    let mut v = msg.to_vec();
    let r = msg.len() % bs;
    let fill = bs - r;
    match p {
        Pad::Pkcs7 => v.extend(std::iter::repeat_n(fill as u8, fill)),
        Pad::Iso7816 => {
            v.push(0x80);
            v.extend(std::iter::repeat_n(0u8, fill - 1));
        }
        Pad::AnsiX923 => {
            v.extend(std::iter::repeat_n(0u8, fill - 1));
            v.push(fill as u8);
        }
        Pad::NoPadding => {
            if r != 0 {
                return None;
            }
        }
    }
    Some(v)
}
