//! Harness foundation: toy ciphers, API traits, reference models, JSON.  No dependency on `/repo`.
pub mod api;
pub mod json;
pub mod refmodel;
pub mod toy;
