fn main() {
    let mut cfgs = vec![];
    cfgq::add(&mut cfgs);
    cfgw::add(&mut cfgs);
    let reg = sut::Registry { cfgs, zeroize: sut::ZEROIZE, sweep: false };
    std::process::exit(checks::main_with(reg, "mc-quick"));
}
