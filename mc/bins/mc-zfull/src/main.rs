fn main() {
    let mut cfgs = vec![];
    cfgq::add(&mut cfgs);
    cfgt1::add(&mut cfgs);
    cfgt2::add(&mut cfgs);
    cfgt3::add(&mut cfgs);
    cfgt4::add(&mut cfgs);
    cfgt5::add(&mut cfgs);
    cfgt6::add(&mut cfgs);
    let reg = sut::Registry { cfgs, zeroize: sut::ZEROIZE, sweep: false };
    std::process::exit(checks::main_with(reg, "mc-zfull"));
}
