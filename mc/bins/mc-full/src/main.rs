fn main() {
    let mut cfgs = vec![];
    cfgq::add(&mut cfgs);
    cfgt1::add(&mut cfgs);
    cfgt2::add(&mut cfgs);
    cfgt3::add(&mut cfgs);
    cfgt4::add(&mut cfgs);
    cfgt5::add(&mut cfgs);
    cfgt6::add(&mut cfgs);
    cfgs1::add(&mut cfgs);
    cfgs2::add(&mut cfgs);
    cfgs3::add(&mut cfgs);
    cfgs4::add(&mut cfgs);
    cfgs5::add(&mut cfgs);
    cfgs6::add(&mut cfgs);
    cfgs7::add(&mut cfgs);
    cfgs8::add(&mut cfgs);
    cfgw::add(&mut cfgs);
    let reg = sut::Registry { cfgs, zeroize: sut::ZEROIZE, sweep: true };
    std::process::exit(checks::main_with(reg, "mc-full"));
}
