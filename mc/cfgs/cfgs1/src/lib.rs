//! all-sizes sweep, part 1: every block size b with b % 8 == 1 ... (1..=255 split over 8 crates), parallel width 2
#![allow(unused_imports)]
use sut::consts::*;
use sut::{real_cfg, toy_cfg};
pub fn add(v: &mut Vec<sut::Cfg>) {
    toy_cfg!(v, U1, U2, "s");
    toy_cfg!(v, U9, U2, "s");
    toy_cfg!(v, U17, U2, "s");
    toy_cfg!(v, U25, U2, "s");
    toy_cfg!(v, U33, U2, "s");
    toy_cfg!(v, U41, U2, "s");
    toy_cfg!(v, U49, U2, "s");
    toy_cfg!(v, U57, U2, "s");
    toy_cfg!(v, U65, U2, "s");
    toy_cfg!(v, U73, U2, "s");
    toy_cfg!(v, U81, U2, "s");
    toy_cfg!(v, U89, U2, "s");
    toy_cfg!(v, U97, U2, "s");
    toy_cfg!(v, U105, U2, "s");
    toy_cfg!(v, U113, U2, "s");
    toy_cfg!(v, U121, U2, "s");
    toy_cfg!(v, U129, U2, "s");
    toy_cfg!(v, U137, U2, "s");
    toy_cfg!(v, U145, U2, "s");
    toy_cfg!(v, U153, U2, "s");
    toy_cfg!(v, U161, U2, "s");
    toy_cfg!(v, U169, U2, "s");
    toy_cfg!(v, U177, U2, "s");
    toy_cfg!(v, U185, U2, "s");
    toy_cfg!(v, U193, U2, "s");
    toy_cfg!(v, U201, U2, "s");
    toy_cfg!(v, U209, U2, "s");
    toy_cfg!(v, U217, U2, "s");
    toy_cfg!(v, U225, U2, "s");
    toy_cfg!(v, U233, U2, "s");
    toy_cfg!(v, U241, U2, "s");
    toy_cfg!(v, U249, U2, "s");
}
