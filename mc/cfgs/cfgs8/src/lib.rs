//! all-sizes sweep, part 8: every block size b with b % 8 == 0 ... (1..=255 split over 8 crates), parallel width 2
#![allow(unused_imports)]
use sut::consts::*;
use sut::{real_cfg, toy_cfg};
pub fn add(v: &mut Vec<sut::Cfg>) {
    toy_cfg!(v, U8, U2, "s");
    toy_cfg!(v, U16, U2, "s");
    toy_cfg!(v, U24, U2, "s");
    toy_cfg!(v, U32, U2, "s");
    toy_cfg!(v, U40, U2, "s");
    toy_cfg!(v, U48, U2, "s");
    toy_cfg!(v, U56, U2, "s");
    toy_cfg!(v, U64, U2, "s");
    toy_cfg!(v, U72, U2, "s");
    toy_cfg!(v, U80, U2, "s");
    toy_cfg!(v, U88, U2, "s");
    toy_cfg!(v, U96, U2, "s");
    toy_cfg!(v, U104, U2, "s");
    toy_cfg!(v, U112, U2, "s");
    toy_cfg!(v, U120, U2, "s");
    toy_cfg!(v, U128, U2, "s");
    toy_cfg!(v, U136, U2, "s");
    toy_cfg!(v, U144, U2, "s");
    toy_cfg!(v, U152, U2, "s");
    toy_cfg!(v, U160, U2, "s");
    toy_cfg!(v, U168, U2, "s");
    toy_cfg!(v, U176, U2, "s");
    toy_cfg!(v, U184, U2, "s");
    toy_cfg!(v, U192, U2, "s");
    toy_cfg!(v, U200, U2, "s");
    toy_cfg!(v, U208, U2, "s");
    toy_cfg!(v, U216, U2, "s");
    toy_cfg!(v, U224, U2, "s");
    toy_cfg!(v, U232, U2, "s");
    toy_cfg!(v, U240, U2, "s");
    toy_cfg!(v, U248, U2, "s");
}
