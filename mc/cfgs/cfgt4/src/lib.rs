//! configuration instantiations (cfgt4); see sut::toy_cfg!
#![allow(unused_imports)]
use sut::consts::*;
use sut::{real_cfg, toy_cfg};
pub fn add(v: &mut Vec<sut::Cfg>) {
    toy_cfg!(v, U24, U8, "t", add_ctr32, add_ctr64);
    toy_cfg!(v, U32, U4, "t", add_ctr32, add_ctr64, add_ctr128);
    toy_cfg!(v, U32, U16, "t", add_ctr32, add_ctr64, add_ctr128);
    toy_cfg!(v, U48, U3, "t", add_ctr32, add_ctr64, add_ctr128);
    toy_cfg!(v, U64, U2, "t", add_ctr32, add_ctr64, add_ctr128);
    toy_cfg!(v, U64, U5, "t", add_ctr32, add_ctr64, add_ctr128);
}
