//! all-sizes sweep, part 7: every block size b with b % 8 == 7 ... (1..=255 split over 8 crates), parallel width 2
#![allow(unused_imports)]
use sut::consts::*;
use sut::{real_cfg, toy_cfg};
pub fn add(v: &mut Vec<sut::Cfg>) {
    toy_cfg!(v, U7, U2, "s");
    toy_cfg!(v, U15, U2, "s");
    toy_cfg!(v, U23, U2, "s");
    toy_cfg!(v, U31, U2, "s");
    toy_cfg!(v, U39, U2, "s");
    toy_cfg!(v, U47, U2, "s");
    toy_cfg!(v, U55, U2, "s");
    toy_cfg!(v, U63, U2, "s");
    toy_cfg!(v, U71, U2, "s");
    toy_cfg!(v, U79, U2, "s");
    toy_cfg!(v, U87, U2, "s");
    toy_cfg!(v, U95, U2, "s");
    toy_cfg!(v, U103, U2, "s");
    toy_cfg!(v, U111, U2, "s");
    toy_cfg!(v, U119, U2, "s");
    toy_cfg!(v, U127, U2, "s");
    toy_cfg!(v, U135, U2, "s");
    toy_cfg!(v, U143, U2, "s");
    toy_cfg!(v, U151, U2, "s");
    toy_cfg!(v, U159, U2, "s");
    toy_cfg!(v, U167, U2, "s");
    toy_cfg!(v, U175, U2, "s");
    toy_cfg!(v, U183, U2, "s");
    toy_cfg!(v, U191, U2, "s");
    toy_cfg!(v, U199, U2, "s");
    toy_cfg!(v, U207, U2, "s");
    toy_cfg!(v, U215, U2, "s");
    toy_cfg!(v, U223, U2, "s");
    toy_cfg!(v, U231, U2, "s");
    toy_cfg!(v, U239, U2, "s");
    toy_cfg!(v, U247, U2, "s");
    toy_cfg!(v, U255, U2, "s");
}
