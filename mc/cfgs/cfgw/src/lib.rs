//! configuration instantiations (cfgw): very wide backends (parallel width >= 256, beyond what fits a u8); set 'w',
//! used by the width-independence part of C07 and the wide-backend part of C06 only (see sut::toy_cfg!)
#![allow(unused_imports)]
use sut::consts::*;
use sut::{real_cfg, toy_cfg};
pub fn add(v: &mut Vec<sut::Cfg>) {
    toy_cfg!(v, U16, U256, "w", add_ctr32, add_ctr64, add_ctr128, add_belt);
    toy_cfg!(v, U4, U512, "w", add_ctr32);
    // width x block size beyond 4 KiB
    toy_cfg!(v, U32, U256, "w", add_ctr32, add_ctr64, add_ctr128);
}
