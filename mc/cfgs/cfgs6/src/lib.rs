//! all-sizes sweep, part 6: every block size b with b % 8 == 6 ... (1..=255 split over 8 crates), parallel width 2
#![allow(unused_imports)]
use sut::consts::*;
use sut::{real_cfg, toy_cfg};
pub fn add(v: &mut Vec<sut::Cfg>) {
    toy_cfg!(v, U6, U2, "s");
    toy_cfg!(v, U14, U2, "s");
    toy_cfg!(v, U22, U2, "s");
    toy_cfg!(v, U30, U2, "s");
    toy_cfg!(v, U38, U2, "s");
    toy_cfg!(v, U46, U2, "s");
    toy_cfg!(v, U54, U2, "s");
    toy_cfg!(v, U62, U2, "s");
    toy_cfg!(v, U70, U2, "s");
    toy_cfg!(v, U78, U2, "s");
    toy_cfg!(v, U86, U2, "s");
    toy_cfg!(v, U94, U2, "s");
    toy_cfg!(v, U102, U2, "s");
    toy_cfg!(v, U110, U2, "s");
    toy_cfg!(v, U118, U2, "s");
    toy_cfg!(v, U126, U2, "s");
    toy_cfg!(v, U134, U2, "s");
    toy_cfg!(v, U142, U2, "s");
    toy_cfg!(v, U150, U2, "s");
    toy_cfg!(v, U158, U2, "s");
    toy_cfg!(v, U166, U2, "s");
    toy_cfg!(v, U174, U2, "s");
    toy_cfg!(v, U182, U2, "s");
    toy_cfg!(v, U190, U2, "s");
    toy_cfg!(v, U198, U2, "s");
    toy_cfg!(v, U206, U2, "s");
    toy_cfg!(v, U214, U2, "s");
    toy_cfg!(v, U222, U2, "s");
    toy_cfg!(v, U230, U2, "s");
    toy_cfg!(v, U238, U2, "s");
    toy_cfg!(v, U246, U2, "s");
    toy_cfg!(v, U254, U2, "s");
}
