//! configuration instantiations (cfgt5); see sut::toy_cfg!
#![allow(unused_imports)]
use sut::consts::*;
use sut::{real_cfg, toy_cfg};
pub fn add(v: &mut Vec<sut::Cfg>) {
    toy_cfg!(v, U255, U1, "t");
    real_cfg!(v, kuznyechik::Kuznyechik, "Kuznyechik", "ot", add_ctr32, add_ctr64, add_ctr128, add_belt);
    real_cfg!(v, magma::Magma, "Magma", "ot", add_ctr32, add_ctr64);
}
