//! all-sizes sweep, part 4: every block size b with b % 8 == 4 ... (1..=255 split over 8 crates), parallel width 2
#![allow(unused_imports)]
use sut::consts::*;
use sut::{real_cfg, toy_cfg};
pub fn add(v: &mut Vec<sut::Cfg>) {
    toy_cfg!(v, U4, U2, "s");
    toy_cfg!(v, U12, U2, "s");
    toy_cfg!(v, U20, U2, "s");
    toy_cfg!(v, U28, U2, "s");
    toy_cfg!(v, U36, U2, "s");
    toy_cfg!(v, U44, U2, "s");
    toy_cfg!(v, U52, U2, "s");
    toy_cfg!(v, U60, U2, "s");
    toy_cfg!(v, U68, U2, "s");
    toy_cfg!(v, U76, U2, "s");
    toy_cfg!(v, U84, U2, "s");
    toy_cfg!(v, U92, U2, "s");
    toy_cfg!(v, U100, U2, "s");
    toy_cfg!(v, U108, U2, "s");
    toy_cfg!(v, U116, U2, "s");
    toy_cfg!(v, U124, U2, "s");
    toy_cfg!(v, U132, U2, "s");
    toy_cfg!(v, U140, U2, "s");
    toy_cfg!(v, U148, U2, "s");
    toy_cfg!(v, U156, U2, "s");
    toy_cfg!(v, U164, U2, "s");
    toy_cfg!(v, U172, U2, "s");
    toy_cfg!(v, U180, U2, "s");
    toy_cfg!(v, U188, U2, "s");
    toy_cfg!(v, U196, U2, "s");
    toy_cfg!(v, U204, U2, "s");
    toy_cfg!(v, U212, U2, "s");
    toy_cfg!(v, U220, U2, "s");
    toy_cfg!(v, U228, U2, "s");
    toy_cfg!(v, U236, U2, "s");
    toy_cfg!(v, U244, U2, "s");
    toy_cfg!(v, U252, U2, "s");
}
