//! configuration instantiations (cfgt1); see sut::toy_cfg!
#![allow(unused_imports)]
use sut::consts::*;
use sut::{real_cfg, toy_cfg};
pub fn add(v: &mut Vec<sut::Cfg>) {
    toy_cfg!(v, U1, U1, "t");
    toy_cfg!(v, U1, U5, "t");
    toy_cfg!(v, U2, U1, "t");
    toy_cfg!(v, U2, U4, "t");
    toy_cfg!(v, U3, U2, "t");
    toy_cfg!(v, U3, U8, "t");
    toy_cfg!(v, U4, U1, "t", add_ctr32);
    toy_cfg!(v, U4, U5, "t", add_ctr32);
    toy_cfg!(v, U4, U16, "t", add_ctr32);
    toy_cfg!(v, U5, U3, "t");
    toy_cfg!(v, U7, U1, "t");
    toy_cfg!(v, U5, U6, "t");
}
