//! configuration instantiations (cfgt2); see sut::toy_cfg!
#![allow(unused_imports)]
use sut::consts::*;
use sut::{real_cfg, toy_cfg};
pub fn add(v: &mut Vec<sut::Cfg>) {
    toy_cfg!(v, U8, U2, "t", add_ctr32, add_ctr64);
    toy_cfg!(v, U8, U5, "t", add_ctr32, add_ctr64);
    toy_cfg!(v, U8, U8, "t", add_ctr32, add_ctr64);
    toy_cfg!(v, U12, U1, "t", add_ctr32);
    toy_cfg!(v, U12, U3, "t", add_ctr32);
    toy_cfg!(v, U12, U4, "t", add_ctr32);
    toy_cfg!(v, U20, U2, "t", add_ctr32);
    toy_cfg!(v, U20, U5, "t", add_ctr32);
}
