//! configuration instantiations (cfgt3); see sut::toy_cfg!
#![allow(unused_imports)]
use sut::consts::*;
use sut::{real_cfg, toy_cfg};
pub fn add(v: &mut Vec<sut::Cfg>) {
    toy_cfg!(v, U16, U2, "t", add_ctr32, add_ctr64, add_ctr128, add_belt);
    toy_cfg!(v, U16, U4, "t", add_ctr32, add_ctr64, add_ctr128, add_belt);
    toy_cfg!(v, U16, U5, "t", add_ctr32, add_ctr64, add_ctr128, add_belt);
    toy_cfg!(v, U16, U16, "t", add_ctr32, add_ctr64, add_ctr128, add_belt);
    toy_cfg!(v, U16, U12, "t", add_ctr32, add_ctr64, add_ctr128, add_belt);
    toy_cfg!(v, U24, U1, "t", add_ctr32, add_ctr64);
    toy_cfg!(v, U24, U3, "t", add_ctr32, add_ctr64);
}
