//! all-sizes sweep, part 5: every block size b with b % 8 == 5 ... (1..=255 split over 8 crates), parallel width 2
#![allow(unused_imports)]
use sut::consts::*;
use sut::{real_cfg, toy_cfg};
pub fn add(v: &mut Vec<sut::Cfg>) {
    toy_cfg!(v, U5, U2, "s");
    toy_cfg!(v, U13, U2, "s");
    toy_cfg!(v, U21, U2, "s");
    toy_cfg!(v, U29, U2, "s");
    toy_cfg!(v, U37, U2, "s");
    toy_cfg!(v, U45, U2, "s");
    toy_cfg!(v, U53, U2, "s");
    toy_cfg!(v, U61, U2, "s");
    toy_cfg!(v, U69, U2, "s");
    toy_cfg!(v, U77, U2, "s");
    toy_cfg!(v, U85, U2, "s");
    toy_cfg!(v, U93, U2, "s");
    toy_cfg!(v, U101, U2, "s");
    toy_cfg!(v, U109, U2, "s");
    toy_cfg!(v, U117, U2, "s");
    toy_cfg!(v, U125, U2, "s");
    toy_cfg!(v, U133, U2, "s");
    toy_cfg!(v, U141, U2, "s");
    toy_cfg!(v, U149, U2, "s");
    toy_cfg!(v, U157, U2, "s");
    toy_cfg!(v, U165, U2, "s");
    toy_cfg!(v, U173, U2, "s");
    toy_cfg!(v, U181, U2, "s");
    toy_cfg!(v, U189, U2, "s");
    toy_cfg!(v, U197, U2, "s");
    toy_cfg!(v, U205, U2, "s");
    toy_cfg!(v, U213, U2, "s");
    toy_cfg!(v, U221, U2, "s");
    toy_cfg!(v, U229, U2, "s");
    toy_cfg!(v, U237, U2, "s");
    toy_cfg!(v, U245, U2, "s");
    toy_cfg!(v, U253, U2, "s");
}
