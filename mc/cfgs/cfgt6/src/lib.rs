//! configuration instantiations (cfgt6); see sut::toy_cfg!
#![allow(unused_imports)]
use sut::consts::*;
use sut::{real_cfg, toy_cfg};
pub fn add(v: &mut Vec<sut::Cfg>) {
    {
        type C = sut::XorToy<U4, U4>;
        let mut c = sut::base_cfg::<C>("XorToy<U4,U4>", "xortoy", 4, "x", sut::xor_encdec, sut::xor_encdec);
        sut::add_ctr32::<C>(&mut c);
        v.push(c);
    }
    {
        type C = sut::XorToy<U16, U4>;
        let mut c = sut::base_cfg::<C>("XorToy<U16,U4>", "xortoy", 4, "x", sut::xor_encdec, sut::xor_encdec);
        sut::add_ctr32::<C>(&mut c);
        v.push(c);
    }
}
