//! all-sizes sweep, part 2: every block size b with b % 8 == 2 ... (1..=255 split over 8 crates), parallel width 2
#![allow(unused_imports)]
use sut::consts::*;
use sut::{real_cfg, toy_cfg};
pub fn add(v: &mut Vec<sut::Cfg>) {
    toy_cfg!(v, U2, U2, "s");
    toy_cfg!(v, U10, U2, "s");
    toy_cfg!(v, U18, U2, "s");
    toy_cfg!(v, U26, U2, "s");
    toy_cfg!(v, U34, U2, "s");
    toy_cfg!(v, U42, U2, "s");
    toy_cfg!(v, U50, U2, "s");
    toy_cfg!(v, U58, U2, "s");
    toy_cfg!(v, U66, U2, "s");
    toy_cfg!(v, U74, U2, "s");
    toy_cfg!(v, U82, U2, "s");
    toy_cfg!(v, U90, U2, "s");
    toy_cfg!(v, U98, U2, "s");
    toy_cfg!(v, U106, U2, "s");
    toy_cfg!(v, U114, U2, "s");
    toy_cfg!(v, U122, U2, "s");
    toy_cfg!(v, U130, U2, "s");
    toy_cfg!(v, U138, U2, "s");
    toy_cfg!(v, U146, U2, "s");
    toy_cfg!(v, U154, U2, "s");
    toy_cfg!(v, U162, U2, "s");
    toy_cfg!(v, U170, U2, "s");
    toy_cfg!(v, U178, U2, "s");
    toy_cfg!(v, U186, U2, "s");
    toy_cfg!(v, U194, U2, "s");
    toy_cfg!(v, U202, U2, "s");
    toy_cfg!(v, U210, U2, "s");
    toy_cfg!(v, U218, U2, "s");
    toy_cfg!(v, U226, U2, "s");
    toy_cfg!(v, U234, U2, "s");
    toy_cfg!(v, U242, U2, "s");
    toy_cfg!(v, U250, U2, "s");
}
