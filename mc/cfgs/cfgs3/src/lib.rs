//! all-sizes sweep, part 3: every block size b with b % 8 == 3 ... (1..=255 split over 8 crates), parallel width 2
#![allow(unused_imports)]
use sut::consts::*;
use sut::{real_cfg, toy_cfg};
pub fn add(v: &mut Vec<sut::Cfg>) {
    toy_cfg!(v, U3, U2, "s");
    toy_cfg!(v, U11, U2, "s");
    toy_cfg!(v, U19, U2, "s");
    toy_cfg!(v, U27, U2, "s");
    toy_cfg!(v, U35, U2, "s");
    toy_cfg!(v, U43, U2, "s");
    toy_cfg!(v, U51, U2, "s");
    toy_cfg!(v, U59, U2, "s");
    toy_cfg!(v, U67, U2, "s");
    toy_cfg!(v, U75, U2, "s");
    toy_cfg!(v, U83, U2, "s");
    toy_cfg!(v, U91, U2, "s");
    toy_cfg!(v, U99, U2, "s");
    toy_cfg!(v, U107, U2, "s");
    toy_cfg!(v, U115, U2, "s");
    toy_cfg!(v, U123, U2, "s");
    toy_cfg!(v, U131, U2, "s");
    toy_cfg!(v, U139, U2, "s");
    toy_cfg!(v, U147, U2, "s");
    toy_cfg!(v, U155, U2, "s");
    toy_cfg!(v, U163, U2, "s");
    toy_cfg!(v, U171, U2, "s");
    toy_cfg!(v, U179, U2, "s");
    toy_cfg!(v, U187, U2, "s");
    toy_cfg!(v, U195, U2, "s");
    toy_cfg!(v, U203, U2, "s");
    toy_cfg!(v, U211, U2, "s");
    toy_cfg!(v, U219, U2, "s");
    toy_cfg!(v, U227, U2, "s");
    toy_cfg!(v, U235, U2, "s");
    toy_cfg!(v, U243, U2, "s");
    toy_cfg!(v, U251, U2, "s");
}
