//! configuration instantiations (cfgq); see sut::toy_cfg!
#![allow(unused_imports)]
use sut::consts::*;
use sut::{real_cfg, toy_cfg};
pub fn add(v: &mut Vec<sut::Cfg>) {
    toy_cfg!(v, U1, U2, "qt");
    toy_cfg!(v, U2, U3, "qt");
    toy_cfg!(v, U3, U1, "qt");
    toy_cfg!(v, U4, U3, "qt", add_ctr32);
    toy_cfg!(v, U5, U2, "qt");
    toy_cfg!(v, U8, U1, "qt", add_ctr32, add_ctr64);
    toy_cfg!(v, U8, U3, "qt", add_ctr32, add_ctr64);
    toy_cfg!(v, U16, U1, "qt", add_ctr32, add_ctr64, add_ctr128, add_belt);
    toy_cfg!(v, U16, U3, "qt", add_ctr32, add_ctr64, add_ctr128, add_belt);
    toy_cfg!(v, U16, U8, "qt", add_ctr32, add_ctr64, add_ctr128, add_belt);
    toy_cfg!(v, U32, U2, "qt", add_ctr32, add_ctr64, add_ctr128);
    // further sizes / widths so that the quick tier also sees odd sizes, widths 4, 5, 16 and the u8 limit
    toy_cfg!(v, U7, U4, "qt");
    toy_cfg!(v, U12, U5, "qt", add_ctr32);
    toy_cfg!(v, U24, U16, "qt", add_ctr32, add_ctr64);
    toy_cfg!(v, U64, U4, "qt", add_ctr32, add_ctr64, add_ctr128);
    toy_cfg!(v, U255, U3, "qt");
    // unusual parallel widths
    toy_cfg!(v, U8, U6, "qt", add_ctr32, add_ctr64);
    toy_cfg!(v, U16, U7, "qt", add_ctr32, add_ctr64, add_ctr128, add_belt);
    // a backend much wider than the block is long (width >= block size + 3)
    toy_cfg!(v, U2, U7, "qt");
    toy_cfg!(v, U4, U7, "qt", add_ctr32);
    // real ciphers needed by the oracle self-test of every run ('o'); part of the thorough set
    real_cfg!(v, aes::Aes128, "Aes128", "qot", add_ctr32, add_ctr64, add_ctr128, add_belt);
    real_cfg!(v, belt_block::BeltBlock, "BeltBlock", "ot", add_ctr32, add_ctr64, add_ctr128, add_belt);
}
