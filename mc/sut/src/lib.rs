//! Registry of cipher configurations and, per configuration, every object kind of the workspace
//! wrapped in the thin adapters of `ad`.
#![allow(clippy::type_complexity)]
pub mod ad;

use ad::*;
use base::api::*;
use base::toy;
pub use base::toy::{Toy, XorToy};
pub use cipher::typenum::Unsigned;
pub use cipher::consts;
pub use base::api::{Cfg, Registry};
use cipher::{
    AlgorithmName, BlockCipherDecrypt, BlockCipherEncrypt, BlockSizeUser, KeyInit, KeySizeUser,
    array::ArraySize,
    consts::*,
    typenum::Sum,
};
use core::ops::Add;

pub trait Ciph: BlockCipherEncrypt + BlockCipherDecrypt + KeyInit + Clone + AlgorithmName + 'static {}
impl<T: BlockCipherEncrypt + BlockCipherDecrypt + KeyInit + Clone + AlgorithmName + 'static> Ciph for T {}

pub fn toy_enc(key: &[u8], b: &mut [u8]) {
    toy::enc_bytes(toy::key32(key), b)
}
pub fn toy_dec(key: &[u8], b: &mut [u8]) {
    toy::dec_bytes(toy::key32(key), b)
}
pub fn xor_encdec(key: &[u8], b: &mut [u8]) {
    toy::xor_bytes(toy::key32(key), b)
}
pub fn real_enc<C: Ciph>(key: &[u8], b: &mut [u8]) {
    C::new_from_slice(key).expect("key length").encrypt_block(b.try_into().expect("block length"))
}
pub fn real_dec<C: Ciph>(key: &[u8], b: &mut [u8]) {
    C::new_from_slice(key).expect("key length").decrypt_block(b.try_into().expect("block length"))
}

/// the parallel width the cipher's encryption backend actually declares (hardware dependent for real ciphers)
pub fn backend_width<C: Ciph>() -> usize {
    use cipher::{BlockCipherEncBackend, BlockCipherEncClosure, crypto_common::BlockSizes};
    struct Probe<'a, BS>(&'a mut usize, core::marker::PhantomData<BS>);
    impl<BS: BlockSizes> BlockSizeUser for Probe<'_, BS> {
        type BlockSize = BS;
    }
    impl<BS: BlockSizes> BlockCipherEncClosure for Probe<'_, BS> {
        fn call<B: BlockCipherEncBackend<BlockSize = BS>>(self, _backend: &B) {
            *self.0 = <B::ParBlocksSize as Unsigned>::USIZE;
        }
    }
    let c = C::new(&Default::default());
    let mut n = 0usize;
    c.encrypt_with_backend(Probe(&mut n, core::marker::PhantomData));
    n
}

/// modes available for every block size: cbc, pcbc, cfb, cfb8, ofb (+ buffered cfb, cts)
pub fn base_cfg<C: Ciph>(cname: &str, cipher: &'static str, par: usize, sets: &'static str, enc: fn(&[u8], &mut [u8]), dec: fn(&[u8], &mut [u8])) -> Cfg {
    let bs = C::BlockSize::USIZE;
    let mut block_modes = vec![];
    macro_rules! bm {
        ($mode:literal, $dir:expr, $ty:ty, $tyname:expr, $mk:ident, $mbs:expr, $ivl:expr) => {
            block_modes.push(BlockModeDesc {
                mode: $mode,
                dir: $dir,
                ty: format!("{}<{}>", $tyname, cname),
                mbs: $mbs,
                iv_len: $ivl,
                make: $mk::<$ty>,
                alg_name: alg_name::<$ty>,
            });
        };
    }
    bm!("cbc", Dir::Enc, cbc::Encryptor<C>, "cbc::Encryptor", make_enc, bs, bs);
    bm!("cbc", Dir::Dec, cbc::Decryptor<C>, "cbc::Decryptor", make_dec, bs, bs);
    bm!("pcbc", Dir::Enc, pcbc::Encryptor<C>, "pcbc::Encryptor", make_enc, bs, bs);
    bm!("pcbc", Dir::Dec, pcbc::Decryptor<C>, "pcbc::Decryptor", make_dec, bs, bs);
    bm!("cfb", Dir::Enc, cfb_mode::Encryptor<C>, "cfb_mode::Encryptor", make_async_enc, bs, bs);
    bm!("cfb", Dir::Dec, cfb_mode::Decryptor<C>, "cfb_mode::Decryptor", make_async_dec, bs, bs);
    bm!("cfb8", Dir::Enc, cfb8::Encryptor<C>, "cfb8::Encryptor", make_async_enc, 1, bs);
    bm!("cfb8", Dir::Dec, cfb8::Decryptor<C>, "cfb8::Decryptor", make_async_dec, 1, bs);
    bm!("ofb", Dir::Enc, ofb::OfbCore<C>, "ofb::OfbCore", make_enc, bs, bs);
    bm!("ofb", Dir::Dec, ofb::OfbCore<C>, "ofb::OfbCore", make_dec, bs, bs);
    let cores = vec![CoreDesc {
        mode: "ofb",
        ty: format!("ofb::OfbCore<{cname}>"),
        w: 0,
        be: false,
        seekable: false,
        clonable: true,
        make: make_core_c::<ofb::OfbCore<C>>,
        make_stream: make_stream_c::<ofb::OfbCore<C>>,
        alg_name: alg_name::<ofb::OfbCore<C>>,
    }];
    let bufcfb = vec![
        BufCfbDesc {
            dir: Dir::Enc,
            ty: format!("cfb_mode::BufEncryptor<{cname}>"),
            make: BufEncAd::<C>::make,
            from_state: BufEncAd::<C>::from_state,
            alg_name: alg_name::<cfb_mode::BufEncryptor<C>>,
        },
        BufCfbDesc {
            dir: Dir::Dec,
            ty: format!("cfb_mode::BufDecryptor<{cname}>"),
            make: BufDecAd::<C>::make,
            from_state: BufDecAd::<C>::from_state,
            alg_name: alg_name::<cfb_mode::BufDecryptor<C>>,
        },
    ];
    let cts = vec![
        CtsDesc { name: "CbcCs1", ty: format!("cts::CbcCs1<{cname}>"), cbc: true, variant: 1, run: cts_run_iv::<cts::CbcCs1<C>> },
        CtsDesc { name: "CbcCs2", ty: format!("cts::CbcCs2<{cname}>"), cbc: true, variant: 2, run: cts_run_iv::<cts::CbcCs2<C>> },
        CtsDesc { name: "CbcCs3", ty: format!("cts::CbcCs3<{cname}>"), cbc: true, variant: 3, run: cts_run_iv::<cts::CbcCs3<C>> },
        CtsDesc { name: "EcbCs1", ty: format!("cts::EcbCs1<{cname}>"), cbc: false, variant: 1, run: cts_run_noiv::<cts::EcbCs1<C>> },
        CtsDesc { name: "EcbCs2", ty: format!("cts::EcbCs2<{cname}>"), cbc: false, variant: 2, run: cts_run_noiv::<cts::EcbCs2<C>> },
        CtsDesc { name: "EcbCs3", ty: format!("cts::EcbCs3<{cname}>"), cbc: false, variant: 3, run: cts_run_noiv::<cts::EcbCs3<C>> },
    ];
    Cfg {
        name: cname.to_string(),
        cipher,
        bs,
        par,
        key_len: <C as KeySizeUser>::KeySize::USIZE,
        enc,
        dec,
        block_modes,
        cores,
        bufcfb,
        cts,
        sets,
    }
}

pub fn add_ige<C: Ciph>(cfg: &mut Cfg)
where
    C::BlockSize: Add,
    Sum<C::BlockSize, C::BlockSize>: ArraySize,
{
    let bs = cfg.bs;
    cfg.block_modes.push(BlockModeDesc {
        mode: "ige",
        dir: Dir::Enc,
        ty: format!("ige::Encryptor<{}>", cfg.name),
        mbs: bs,
        iv_len: 2 * bs,
        make: make_enc::<ige::Encryptor<C>>,
        alg_name: alg_name::<ige::Encryptor<C>>,
    });
    cfg.block_modes.push(BlockModeDesc {
        mode: "ige",
        dir: Dir::Dec,
        ty: format!("ige::Decryptor<{}>", cfg.name),
        mbs: bs,
        iv_len: 2 * bs,
        make: make_dec::<ige::Decryptor<C>>,
        alg_name: alg_name::<ige::Decryptor<C>>,
    });
}

pub fn add_ctr<C: Ciph, F: ctr::CtrFlavor<C::BlockSize> + 'static>(cfg: &mut Cfg, mode: &'static str, tyname: &str, w: u32, be: bool)
where
    <F as ctr::CtrFlavor<C::BlockSize>>::CtrNonce: 'static,
{
    cfg.cores.push(CoreDesc {
        mode,
        ty: format!("ctr::CtrCore<{}, ctr::flavors::{}>", cfg.name, tyname),
        w,
        be,
        seekable: true,
        clonable: true,
        make: make_core_sc::<ctr::CtrCore<C, F>>,
        make_stream: make_stream_sc::<ctr::CtrCore<C, F>>,
        alg_name: alg_name::<ctr::CtrCore<C, F>>,
    });
}
pub fn add_ctr32<C: Ciph>(cfg: &mut Cfg)
where
    ctr::flavors::Ctr32BE: ctr::CtrFlavor<C::BlockSize>,
    ctr::flavors::Ctr32LE: ctr::CtrFlavor<C::BlockSize>,
    <ctr::flavors::Ctr32BE as ctr::CtrFlavor<C::BlockSize>>::CtrNonce: 'static,
    <ctr::flavors::Ctr32LE as ctr::CtrFlavor<C::BlockSize>>::CtrNonce: 'static,
{
    add_ctr::<C, ctr::flavors::Ctr32BE>(cfg, "ctr32be", "Ctr32BE", 32, true);
    add_ctr::<C, ctr::flavors::Ctr32LE>(cfg, "ctr32le", "Ctr32LE", 32, false);
}
pub fn add_ctr64<C: Ciph>(cfg: &mut Cfg)
where
    ctr::flavors::Ctr64BE: ctr::CtrFlavor<C::BlockSize>,
    ctr::flavors::Ctr64LE: ctr::CtrFlavor<C::BlockSize>,
    <ctr::flavors::Ctr64BE as ctr::CtrFlavor<C::BlockSize>>::CtrNonce: 'static,
    <ctr::flavors::Ctr64LE as ctr::CtrFlavor<C::BlockSize>>::CtrNonce: 'static,
{
    add_ctr::<C, ctr::flavors::Ctr64BE>(cfg, "ctr64be", "Ctr64BE", 64, true);
    add_ctr::<C, ctr::flavors::Ctr64LE>(cfg, "ctr64le", "Ctr64LE", 64, false);
}
pub fn add_ctr128<C: Ciph>(cfg: &mut Cfg)
where
    ctr::flavors::Ctr128BE: ctr::CtrFlavor<C::BlockSize>,
    ctr::flavors::Ctr128LE: ctr::CtrFlavor<C::BlockSize>,
    <ctr::flavors::Ctr128BE as ctr::CtrFlavor<C::BlockSize>>::CtrNonce: 'static,
    <ctr::flavors::Ctr128LE as ctr::CtrFlavor<C::BlockSize>>::CtrNonce: 'static,
{
    add_ctr::<C, ctr::flavors::Ctr128BE>(cfg, "ctr128be", "Ctr128BE", 128, true);
    add_ctr::<C, ctr::flavors::Ctr128LE>(cfg, "ctr128le", "Ctr128LE", 128, false);
}
pub fn add_belt<C: Ciph + BlockSizeUser<BlockSize = U16>>(cfg: &mut Cfg) {
    cfg.cores.push(CoreDesc {
        mode: "belt",
        ty: format!("belt_ctr::BeltCtrCore<{}>", cfg.name),
        w: 128,
        be: false,
        seekable: true,
        clonable: false,
        make: make_core_s::<belt_ctr::BeltCtrCore<C>>,
        make_stream: make_stream_s::<belt_ctr::BeltCtrCore<C>>,
        alg_name: alg_name::<belt_ctr::BeltCtrCore<C>>,
    });
}

#[macro_export]
macro_rules! toy_cfg {
    ($v:ident, $bs:ident, $par:ident, $sets:literal $(, $extra:ident)*) => {{
        type C = $crate::Toy<$bs, $par>;
        let name = format!("Toy<{},{}>", stringify!($bs), stringify!($par));
        #[allow(unused_mut)]
        let mut c = $crate::base_cfg::<C>(&name, "toy", <$par as $crate::Unsigned>::USIZE, $sets, $crate::toy_enc, $crate::toy_dec);
        $crate::add_ige::<C>(&mut c);
        $( $crate::$extra::<C>(&mut c); )*
        $v.push(c);
    }};
}
#[macro_export]
macro_rules! real_cfg {
    ($v:ident, $ty:ty, $name:literal, $sets:literal $(, $extra:ident)*) => {{
        type C = $ty;
        #[allow(unused_mut)]
        let mut c = $crate::base_cfg::<C>($name, $name, $crate::backend_width::<C>(), $sets, $crate::real_enc::<C>, $crate::real_dec::<C>);
        $crate::add_ige::<C>(&mut c);
        $( $crate::$extra::<C>(&mut c); )*
        $v.push(c);
    }};
}


pub const ZEROIZE: bool = cfg!(feature = "zeroize");
