//! Thin 1:1 adapters from the object-safe traits in `base::api` to the public API of the crates in
//! `/repo`.  No logic lives here: every method is one call of a public item plus slice <-> block
//! conversion.
use base::api::*;
use cipher::{
    AlgorithmName, Array, AsyncStreamCipher, Block, BlockModeDecrypt, BlockModeEncrypt, BlockSizeUser,
    InnerIvInit, Iv, IvState, Key, KeyInit, KeyIvInit, StreamCipher, StreamCipherCore,
    StreamCipherCoreWrapper, StreamCipherSeek, StreamCipherSeekCore,
    array::ArraySize,
    block_padding::{AnsiX923, Iso7816, NoPadding, Pkcs7},
    crypto_common::{InnerInit, InnerUser},
    inout::{InOut, InOutBuf},
};
use core::fmt;
use core::marker::PhantomData;
use std::alloc::{Layout, alloc_zeroed, dealloc};

// ---------------------------------------------------------------------------------------------
// helpers

pub fn blocks<N: ArraySize>(b: &[u8]) -> &[Array<u8, N>] {
    let (c, r) = Array::<u8, N>::slice_as_chunks(b);
    assert!(r.is_empty(), "adapter: length is not a multiple of the block size");
    c
}
pub fn blocks_mut<N: ArraySize>(b: &mut [u8]) -> &mut [Array<u8, N>] {
    let (c, r) = Array::<u8, N>::slice_as_chunks_mut(b);
    assert!(r.is_empty(), "adapter: length is not a multiple of the block size");
    c
}
fn blk<N: ArraySize>(b: &[u8]) -> &Array<u8, N> {
    b.try_into().expect("adapter: not one block")
}
fn blk_mut<N: ArraySize>(b: &mut [u8]) -> &mut Array<u8, N> {
    b.try_into().expect("adapter: not one block")
}

struct AN<T>(PhantomData<T>);
impl<T: AlgorithmName> fmt::Display for AN<T> {
    fn fmt(&self, f: &mut fmt::Formatter<'_>) -> fmt::Result {
        T::write_alg_name(f)
    }
}
pub fn alg_name<T: AlgorithmName>() -> String {
    format!("{}", AN::<T>(PhantomData))
}

/// Move `v` into zero-initialised heap storage, snapshot its bytes, run `drop_in_place`, snapshot
/// again.  Returns (after, before).  Only meaningful when the repo crates are built with `zeroize`.
pub fn drop_scan<T>(v: T) -> (Vec<u8>, Vec<u8>) {
    let layout = Layout::new::<T>();
    if layout.size() == 0 {
        drop(v);
        return (vec![], vec![]);
    }
    unsafe {
        let p = alloc_zeroed(layout);
        assert!(!p.is_null());
        core::ptr::write(p as *mut T, v);
        let read = |p: *mut u8| -> Vec<u8> { (0..layout.size()).map(|i| core::ptr::read_volatile(p.add(i))).collect() };
        let before = read(p);
        core::ptr::drop_in_place(p as *mut T);
        let after = read(p);
        dealloc(p, layout);
        (after, before)
    }
}

/// Construct a type that is `InnerIvInit` over a `KeyInit` cipher in the requested way.
pub fn construct_iv<M>(ctor: Ctor, key: &[u8], iv: &[u8]) -> Result<M, ()>
where
    M: InnerIvInit + KeyIvInit,
    M::Inner: KeyInit,
{
    match ctor {
        Ctor::Inner => {
            let c = <M::Inner as KeyInit>::new_from_slice(key).map_err(|_| ())?;
            let iv: &Iv<M> = iv.try_into().map_err(|_| ())?;
            Ok(M::inner_iv_init(c, iv))
        }
        Ctor::KeyIv => {
            let key: &Key<M> = key.try_into().map_err(|_| ())?;
            let iv: &Iv<M> = iv.try_into().map_err(|_| ())?;
            Ok(<M as KeyIvInit>::new(key, iv))
        }
        Ctor::Slices => <M as KeyIvInit>::new_from_slices(key, iv).map_err(|_| ()),
        Ctor::InnerSlice => {
            let c = <M::Inner as KeyInit>::new_from_slice(key).map_err(|_| ())?;
            M::inner_iv_slice_init(c, iv).map_err(|_| ())
        }
    }
}
/// Same for the IV-less ECB-CTS types.
pub fn construct_noiv<M>(ctor: Ctor, key: &[u8]) -> Result<M, ()>
where
    M: InnerInit + KeyInit,
    M::Inner: KeyInit,
{
    match ctor {
        Ctor::Inner | Ctor::InnerSlice => {
            let c = <M::Inner as KeyInit>::new_from_slice(key).map_err(|_| ())?;
            Ok(M::inner_init(c))
        }
        Ctor::KeyIv => {
            let key: &Key<M> = key.try_into().map_err(|_| ())?;
            Ok(<M as KeyInit>::new(key))
        }
        Ctor::Slices => <M as KeyInit>::new_from_slice(key).map_err(|_| ()),
    }
}

macro_rules! with_pad {
    ($pad:expr, $P:ident => $e:expr) => {
        match $pad {
            Pad::Pkcs7 => {
                type $P = Pkcs7;
                $e
            }
            Pad::Iso7816 => {
                type $P = Iso7816;
                $e
            }
            Pad::NoPadding => {
                type $P = NoPadding;
                $e
            }
            Pad::AnsiX923 => {
                type $P = AnsiX923;
                $e
            }
        }
    };
}

// ---------------------------------------------------------------------------------------------
// caller-supplied rank-2 closures (what a user of `*_with_backend` may legitimately write)

use cipher::{BlockModeDecBackend, BlockModeDecClosure, BlockModeEncBackend, BlockModeEncClosure, StreamCipherBackend, StreamCipherClosure, crypto_common::BlockSizes};

/// Shapes of a caller-supplied closure (`mode`), all of them legitimate uses of the backend traits:
/// 1 = full groups through `*_par_blocks`, remainder block by block through `*_block`;
/// 2 = full groups through `*_par_blocks`, remainder through `*_tail_blocks` only if it is non-empty;
/// 3 = as 1 through the `*_inplace` methods; 4 = as 2 through the `*_inplace` methods;
/// 5 = every block through `*_block`, never the parallel methods;
/// 6 = one block through `*_block_inplace` first, then as 2 on the rest (groups not aligned with the call);
/// 7 = first half buffer to buffer (private input copy -> caller's buffer), second half through the `*_inplace` methods,
/// in one backend session; 8 = the other way round.
pub struct UserBlocks<'a, BS: BlockSizes> {
    pub blocks: &'a mut [Array<u8, BS>],
    pub mode: u8,
}
impl<BS: BlockSizes> BlockSizeUser for UserBlocks<'_, BS> {
    type BlockSize = BS;
}
macro_rules! user_blocks_call {
    ($self:ident, $backend:ident, $B:ident, $block:ident, $par:ident, $tail:ident, $block_ip:ident, $par_ip:ident, $tail_ip:ident) => {{
        let mut blocks = $self.blocks;
        let mode = $self.mode;
        if mode == 5 {
            for b in blocks {
                $backend.$block(b.into());
            }
            return;
        }
        if mode == 6 {
            match blocks.split_first_mut() {
                Some((first, rest)) => {
                    $backend.$block_ip(first);
                    blocks = rest;
                }
                None => return,
            }
        }
        if mode == 7 || mode == 8 {
            // two call forms inside ONE backend session: one half buffer to buffer (from a private copy of the input
            // into the caller's buffer, which is poisoned first), the other half through the in-place methods
            let cut = blocks.len().div_ceil(2);
            let (first, second) = blocks.split_at_mut(cut);
            let mut halves = [(first, mode == 7), (second, mode == 8)];
            for (part, b2b) in halves.iter_mut() {
                if *b2b {
                    let tmp: Vec<Array<u8, BS>> = part.to_vec();
                    for x in part.iter_mut() {
                        for y in x.iter_mut() {
                            *y ^= 0xA5;
                        }
                    }
                    let buf = InOutBuf::new(&tmp[..], &mut part[..]).expect("harness: equal lengths");
                    let (groups, tail) = buf.into_chunks::<$B::ParBlocksSize>();
                    for g in groups {
                        $backend.$par(g);
                    }
                    for t in tail {
                        $backend.$block(t);
                    }
                } else {
                    let (groups, tail) = Array::<Array<u8, BS>, $B::ParBlocksSize>::slice_as_chunks_mut(&mut part[..]);
                    for g in groups {
                        $backend.$par_ip(g);
                    }
                    for t in tail {
                        $backend.$block_ip(t);
                    }
                }
            }
            return;
        }
        let (groups, tail) = Array::<Array<u8, BS>, $B::ParBlocksSize>::slice_as_chunks_mut(blocks);
        for g in groups {
            if mode == 3 || mode == 4 {
                $backend.$par_ip(g);
            } else {
                $backend.$par(g.into());
            }
        }
        match mode {
            1 => {
                for b in tail {
                    $backend.$block(b.into());
                }
            }
            3 => {
                for b in tail {
                    $backend.$block_ip(b);
                }
            }
            4 => {
                if !tail.is_empty() {
                    $backend.$tail_ip(tail);
                }
            }
            _ => {
                if !tail.is_empty() {
                    $backend.$tail(tail.into());
                }
            }
        }
    }};
}
impl<BS: BlockSizes> BlockModeEncClosure for UserBlocks<'_, BS> {
    fn call<B: BlockModeEncBackend<BlockSize = BS>>(self, backend: &mut B) {
        user_blocks_call!(self, backend, B, encrypt_block, encrypt_par_blocks, encrypt_tail_blocks, encrypt_block_inplace, encrypt_par_blocks_inplace, encrypt_tail_blocks_inplace)
    }
}
impl<BS: BlockSizes> BlockModeDecClosure for UserBlocks<'_, BS> {
    fn call<B: BlockModeDecBackend<BlockSize = BS>>(self, backend: &mut B) {
        user_blocks_call!(self, backend, B, decrypt_block, decrypt_par_blocks, decrypt_tail_blocks, decrypt_block_inplace, decrypt_par_blocks_inplace, decrypt_tail_blocks_inplace)
    }
}
/// executes a script (see `base::api::script_blocks`) on consecutive blocks inside one backend session
pub struct UserScript<'a, BS: BlockSizes> {
    pub blocks: &'a mut [Array<u8, BS>],
    pub script: &'a [u8],
    /// out: number of blocks the script processed (depends on the backend's width, which only the closure sees)
    pub used: &'a mut usize,
}
impl<BS: BlockSizes> BlockSizeUser for UserScript<'_, BS> {
    type BlockSize = BS;
}
macro_rules! user_script_call {
    ($self:ident, $backend:ident, $B:ident, $block:ident, $par:ident, $tail:ident, $block_ip:ident, $par_ip:ident, $tail_ip:ident) => {{
        let w = <$B::ParBlocksSize as cipher::typenum::Unsigned>::USIZE;
        let mut rest = $self.blocks;
        for &op in $self.script {
            let n = base::api::script_op_blocks(op, w);
            *$self.used += n;
            let (cur, r) = rest.split_at_mut(n);
            rest = r;
            if op & 0x10 != 0 {
                // buffer to buffer: private copy of the input, poisoned output
                let tmp: Vec<Array<u8, BS>> = cur.to_vec();
                for x in cur.iter_mut() {
                    for y in x.iter_mut() {
                        *y ^= 0x5A;
                    }
                }
                match op & 0x0f {
                    0 => {
                        let (gi, _) = Array::<Array<u8, BS>, $B::ParBlocksSize>::slice_as_chunks(&tmp);
                        let (go, _) = Array::<Array<u8, BS>, $B::ParBlocksSize>::slice_as_chunks_mut(cur);
                        for (i, o) in gi.iter().zip(go.iter_mut()) {
                            $backend.$par((i, o).into());
                        }
                    }
                    2 => $backend.$block((&tmp[0], &mut cur[0]).into()),
                    _ => {
                        if !cur.is_empty() {
                            $backend.$tail(InOutBuf::new(&tmp[..], cur).expect("harness: equal lengths"));
                        }
                    }
                }
                continue;
            }
            match op {
                0 | 1 => {
                    let (groups, _) = Array::<Array<u8, BS>, $B::ParBlocksSize>::slice_as_chunks_mut(cur);
                    for g in groups {
                        if op == 0 { $backend.$par(g.into()) } else { $backend.$par_ip(g) }
                    }
                }
                2 => $backend.$block((&mut cur[0]).into()),
                3 => $backend.$block_ip(&mut cur[0]),
                _ => {
                    if !cur.is_empty() {
                        if op % 2 == 0 { $backend.$tail(cur.into()) } else { $backend.$tail_ip(cur) }
                    }
                }
            }
        }
        let _ = rest;
    }};
}
impl<BS: BlockSizes> BlockModeEncClosure for UserScript<'_, BS> {
    fn call<B: BlockModeEncBackend<BlockSize = BS>>(self, backend: &mut B) {
        user_script_call!(self, backend, B, encrypt_block, encrypt_par_blocks, encrypt_tail_blocks, encrypt_block_inplace, encrypt_par_blocks_inplace, encrypt_tail_blocks_inplace)
    }
}
impl<BS: BlockSizes> BlockModeDecClosure for UserScript<'_, BS> {
    fn call<B: BlockModeDecBackend<BlockSize = BS>>(self, backend: &mut B) {
        user_script_call!(self, backend, B, decrypt_block, decrypt_par_blocks, decrypt_tail_blocks, decrypt_block_inplace, decrypt_par_blocks_inplace, decrypt_tail_blocks_inplace)
    }
}
impl<BS: BlockSizes> StreamCipherClosure for UserScript<'_, BS> {
    fn call<B: StreamCipherBackend<BlockSize = BS>>(self, backend: &mut B) {
        let w = <B::ParBlocksSize as cipher::typenum::Unsigned>::USIZE;
        let mut rest = self.blocks;
        for &op in self.script {
            let n = base::api::script_op_blocks(op, w);
            *self.used += n;
            let (cur, r) = rest.split_at_mut(n);
            rest = r;
            match (op & 0x0f) / 2 {
                0 => {
                    let (groups, _) = Array::<Array<u8, BS>, B::ParBlocksSize>::slice_as_chunks_mut(cur);
                    for g in groups {
                        backend.gen_par_ks_blocks(g);
                    }
                }
                1 => backend.gen_ks_block(&mut cur[0]),
                _ => {
                    if !cur.is_empty() {
                        backend.gen_tail_blocks(cur);
                    }
                }
            }
        }
        let _ = rest;
    }
}
/// keystream closures: modes 1, 2, 5, 6 as above (the stream backend has no `*_inplace` methods; 3 / 4 behave as 1 / 2)
pub struct UserKeystream<'a, BS: BlockSizes> {
    pub blocks: &'a mut [Array<u8, BS>],
    pub mode: u8,
}
impl<BS: BlockSizes> BlockSizeUser for UserKeystream<'_, BS> {
    type BlockSize = BS;
}
impl<BS: BlockSizes> StreamCipherClosure for UserKeystream<'_, BS> {
    fn call<B: StreamCipherBackend<BlockSize = BS>>(self, backend: &mut B) {
        let mut blocks = self.blocks;
        let mode = self.mode;
        if mode == 5 {
            for b in blocks {
                backend.gen_ks_block(b);
            }
            return;
        }
        if mode == 6 {
            match blocks.split_first_mut() {
                Some((first, rest)) => {
                    backend.gen_ks_block(first);
                    blocks = rest;
                }
                None => return,
            }
        }
        let (groups, tail) = Array::<Array<u8, BS>, B::ParBlocksSize>::slice_as_chunks_mut(blocks);
        for g in groups {
            backend.gen_par_ks_blocks(g);
        }
        if mode == 1 || mode == 3 {
            for b in tail {
                backend.gen_ks_block(b);
            }
        } else if !tail.is_empty() {
            backend.gen_tail_blocks(tail);
        }
    }
}

// ---------------------------------------------------------------------------------------------
// block modes

pub struct EncAd<M>(pub M);
pub struct DecAd<M>(pub M);
pub struct AsyncEncAd<M>(pub M);
pub struct AsyncDecAd<M>(pub M);

macro_rules! impl_block_mode {
    ($ad:ident, enc, $oneshot:tt, [$($b:tt)*]) => {
        impl<M> BlockMode for $ad<M>
        where
            M: BlockModeEncrypt + IvState + Clone + fmt::Debug + 'static $($b)*,
        {
            fn one(&mut self, k: Kind, inp: &[u8], out: &mut [u8]) {
                match k {
                    Kind::InPlace => self.0.encrypt_block(blk_mut(out)),
                    Kind::B2b => self.0.encrypt_block_b2b(blk(inp), blk_mut(out)),
                    Kind::InOut => self.0.encrypt_block_inout(InOut::from((blk(inp), blk_mut(out)))),
                    Kind::Alias => self.0.encrypt_block_inout(InOut::from(blk_mut(out))),
                }
            }
            fn many(&mut self, k: Kind, inp: &[u8], out: &mut [u8]) -> R {
                match k {
                    Kind::InPlace => {
                        self.0.encrypt_blocks(blocks_mut(out));
                        Ok(())
                    }
                    Kind::Alias => {
                        self.0.encrypt_blocks_inout(InOutBuf::from(blocks_mut::<M::BlockSize>(out)));
                        Ok(())
                    }
                    Kind::B2b => self.0.encrypt_blocks_b2b(blocks(inp), blocks_mut(out)).map_err(|_| ()),
                    Kind::InOut => match InOutBuf::new(blocks::<M::BlockSize>(inp), blocks_mut::<M::BlockSize>(out)) {
                        Ok(b) => {
                            self.0.encrypt_blocks_inout(b);
                            Ok(())
                        }
                        Err(_) => Err(()),
                    },
                }
            }
            fn many_closure(&mut self, mode: u8, buf: &mut [u8]) {
                let b = blocks_mut::<M::BlockSize>(buf);
                self.0.encrypt_with_backend(UserBlocks { blocks: b, mode });
            }
            fn many_script(&mut self, script: &[u8], buf: &mut [u8]) -> usize {
                let b = blocks_mut::<M::BlockSize>(buf);
                let mut used = 0;
                self.0.encrypt_with_backend(UserScript { blocks: b, script, used: &mut used });
                used
            }
            fn iv_state(&self) -> Vec<u8> {
                self.0.iv_state().to_vec()
            }
            fn dup(&self) -> Box<dyn BlockMode> {
                Box::new($ad(self.0.clone()))
            }
            fn as_any(&self) -> &dyn std::any::Any {
                self
            }
            fn clone_from_obj(&mut self, src: &dyn BlockMode) -> bool {
                match src.as_any().downcast_ref::<Self>() {
                    Some(s) => {
                        self.0.clone_from(&s.0);
                        true
                    }
                    None => false,
                }
            }
            fn debug(&self) -> String {
                format!("{:?}\n{:#?}", self.0, self.0)
            }
            fn padded(self: Box<Self>, pad: Pad, k: Kind, inp: &[u8], out: &mut Vec<u8>) -> Result<usize, ()> {
                let m = self.0;
                with_pad!(pad, P => match k {
                    Kind::InPlace => m.encrypt_padded::<P>(&mut out[..], inp.len()).map(|s| s.len()).map_err(|_| ()),
                    Kind::Alias => match cipher::inout::InOutBufReserved::from_mut_slice(&mut out[..], inp.len()) {
                        Ok(b) => m.encrypt_padded_inout::<P>(b).map(|s| s.len()).map_err(|_| ()),
                        Err(_) => Err(()),
                    },
                    Kind::B2b => m.encrypt_padded_b2b::<P>(inp, &mut out[..]).map(|s| s.len()).map_err(|_| ()),
                    Kind::InOut => {
                        *out = m.encrypt_padded_vec::<P>(inp);
                        Ok(out.len())
                    }
                })
            }
            fn oneshot(self: Box<Self>, k: Kind, inp: &[u8], out: &mut [u8]) -> Option<R> {
                impl_block_mode!(@oneshot_enc $oneshot self k inp out)
            }
            fn drop_scan(self: Box<Self>) -> (Vec<u8>, Vec<u8>) {
                drop_scan(self.0)
            }
        }
    };
    ($ad:ident, dec, $oneshot:tt, [$($b:tt)*]) => {
        impl<M> BlockMode for $ad<M>
        where
            M: BlockModeDecrypt + IvState + Clone + fmt::Debug + 'static $($b)*,
        {
            fn one(&mut self, k: Kind, inp: &[u8], out: &mut [u8]) {
                match k {
                    Kind::InPlace => self.0.decrypt_block(blk_mut(out)),
                    Kind::B2b => self.0.decrypt_block_b2b(blk(inp), blk_mut(out)),
                    Kind::InOut => self.0.decrypt_block_inout(InOut::from((blk(inp), blk_mut(out)))),
                    Kind::Alias => self.0.decrypt_block_inout(InOut::from(blk_mut(out))),
                }
            }
            fn many(&mut self, k: Kind, inp: &[u8], out: &mut [u8]) -> R {
                match k {
                    Kind::InPlace => {
                        self.0.decrypt_blocks(blocks_mut(out));
                        Ok(())
                    }
                    Kind::Alias => {
                        self.0.decrypt_blocks_inout(InOutBuf::from(blocks_mut::<M::BlockSize>(out)));
                        Ok(())
                    }
                    Kind::B2b => self.0.decrypt_blocks_b2b(blocks(inp), blocks_mut(out)).map_err(|_| ()),
                    Kind::InOut => match InOutBuf::new(blocks::<M::BlockSize>(inp), blocks_mut::<M::BlockSize>(out)) {
                        Ok(b) => {
                            self.0.decrypt_blocks_inout(b);
                            Ok(())
                        }
                        Err(_) => Err(()),
                    },
                }
            }
            fn many_closure(&mut self, mode: u8, buf: &mut [u8]) {
                let b = blocks_mut::<M::BlockSize>(buf);
                self.0.decrypt_with_backend(UserBlocks { blocks: b, mode });
            }
            fn many_script(&mut self, script: &[u8], buf: &mut [u8]) -> usize {
                let b = blocks_mut::<M::BlockSize>(buf);
                let mut used = 0;
                self.0.decrypt_with_backend(UserScript { blocks: b, script, used: &mut used });
                used
            }
            fn iv_state(&self) -> Vec<u8> {
                self.0.iv_state().to_vec()
            }
            fn dup(&self) -> Box<dyn BlockMode> {
                Box::new($ad(self.0.clone()))
            }
            fn as_any(&self) -> &dyn std::any::Any {
                self
            }
            fn clone_from_obj(&mut self, src: &dyn BlockMode) -> bool {
                match src.as_any().downcast_ref::<Self>() {
                    Some(s) => {
                        self.0.clone_from(&s.0);
                        true
                    }
                    None => false,
                }
            }
            fn debug(&self) -> String {
                format!("{:?}\n{:#?}", self.0, self.0)
            }
            fn padded(self: Box<Self>, pad: Pad, k: Kind, inp: &[u8], out: &mut Vec<u8>) -> Result<usize, ()> {
                let m = self.0;
                with_pad!(pad, P => match k {
                    Kind::InPlace => m.decrypt_padded::<P>(&mut out[..]).map(|s| s.len()).map_err(|_| ()),
                    Kind::Alias => m.decrypt_padded_inout::<P>(InOutBuf::from(&mut out[..])).map(|s| s.len()).map_err(|_| ()),
                    Kind::B2b => m.decrypt_padded_b2b::<P>(inp, &mut out[..]).map(|s| s.len()).map_err(|_| ()),
                    Kind::InOut => match m.decrypt_padded_vec::<P>(inp) {
                        Ok(v) => {
                            *out = v;
                            Ok(out.len())
                        }
                        Err(_) => Err(()),
                    },
                })
            }
            fn oneshot(self: Box<Self>, k: Kind, inp: &[u8], out: &mut [u8]) -> Option<R> {
                impl_block_mode!(@oneshot_dec $oneshot self k inp out)
            }
            fn drop_scan(self: Box<Self>) -> (Vec<u8>, Vec<u8>) {
                drop_scan(self.0)
            }
        }
    };
    (@oneshot_enc sync $s:ident $k:ident $i:ident $o:ident) => {{ let _ = ($s.0, $k, $i, $o); None }};
    (@oneshot_dec sync $s:ident $k:ident $i:ident $o:ident) => {{ let _ = ($s.0, $k, $i, $o); None }};
    (@oneshot_enc async $s:ident $k:ident $i:ident $o:ident) => {{
        let m = $s.0;
        Some(match $k {
            Kind::InPlace => { AsyncStreamCipher::encrypt(m, $o); Ok(()) }
            Kind::B2b => AsyncStreamCipher::encrypt_b2b(m, $i, $o).map_err(|_| ()),
            Kind::InOut => match InOutBuf::new($i, $o) { Ok(b) => { AsyncStreamCipher::encrypt_inout(m, b); Ok(()) } Err(_) => Err(()) },
            Kind::Alias => { AsyncStreamCipher::encrypt_inout(m, InOutBuf::from($o)); Ok(()) }
        })
    }};
    (@oneshot_dec async $s:ident $k:ident $i:ident $o:ident) => {{
        let m = $s.0;
        Some(match $k {
            Kind::InPlace => { AsyncStreamCipher::decrypt(m, $o); Ok(()) }
            Kind::B2b => AsyncStreamCipher::decrypt_b2b(m, $i, $o).map_err(|_| ()),
            Kind::InOut => match InOutBuf::new($i, $o) { Ok(b) => { AsyncStreamCipher::decrypt_inout(m, b); Ok(()) } Err(_) => Err(()) },
            Kind::Alias => { AsyncStreamCipher::decrypt_inout(m, InOutBuf::from($o)); Ok(()) }
        })
    }};
}
impl_block_mode!(EncAd, enc, sync, []);
impl_block_mode!(DecAd, dec, sync, []);
impl_block_mode!(AsyncEncAd, enc, async, [+ AsyncStreamCipher]);
impl_block_mode!(AsyncDecAd, dec, async, [+ AsyncStreamCipher]);

macro_rules! maker {
    ($f:ident, $ad:ident, $tr:ident $(, $extra:path)?) => {
        pub fn $f<M>(ctor: Ctor, key: &[u8], iv: &[u8]) -> Result<Box<dyn BlockMode>, ()>
        where
            M: $tr + IvState + Clone + fmt::Debug + InnerIvInit + 'static $(+ $extra)?,
            M::Inner: KeyInit,
        {
            Ok(Box::new($ad(construct_iv::<M>(ctor, key, iv)?)))
        }
    };
}
maker!(make_enc, EncAd, BlockModeEncrypt);
maker!(make_dec, DecAd, BlockModeDecrypt);
maker!(make_async_enc, AsyncEncAd, BlockModeEncrypt, AsyncStreamCipher);
maker!(make_async_dec, AsyncDecAd, BlockModeDecrypt, AsyncStreamCipher);

// ---------------------------------------------------------------------------------------------
// stream cipher cores and their byte-level wrappers

/// seekable + clonable (CtrCore)
pub struct CoreSC<T>(pub T);
/// clonable, not seekable (OfbCore)
pub struct CoreC<T>(pub T);
/// seekable, not clonable (BeltCtrCore)
pub struct CoreS<T>(pub T);
pub struct StreamSC<T: StreamCipherCore>(pub StreamCipherCoreWrapper<T>);
pub struct StreamC<T: StreamCipherCore>(pub StreamCipherCoreWrapper<T>);
pub struct StreamS<T: StreamCipherCore>(pub StreamCipherCoreWrapper<T>);

macro_rules! seek_dispatch {
    ($s:expr, $t:expr, $p:expr) => {
        match $t {
            SeekTy::I32 => i32::try_from($p).ok().map(|v| $s.try_seek(v).map_err(|_| ())),
            SeekTy::U32 => u32::try_from($p).ok().map(|v| $s.try_seek(v).map_err(|_| ())),
            SeekTy::U64 => u64::try_from($p).ok().map(|v| $s.try_seek(v).map_err(|_| ())),
            SeekTy::U128 => Some($s.try_seek($p).map_err(|_| ())),
            SeekTy::Usize => usize::try_from($p).ok().map(|v| $s.try_seek(v).map_err(|_| ())),
        }
    };
}
macro_rules! pos_dispatch {
    ($s:expr, $t:expr) => {
        match $t {
            // a negative i32 would be a truncated value: map it to something no reference position equals
            SeekTy::I32 => $s.try_current_pos::<i32>().map(|v| u128::try_from(v).unwrap_or(u128::MAX)).map_err(|_| ()),
            SeekTy::U32 => $s.try_current_pos::<u32>().map(|v| v as u128).map_err(|_| ()),
            SeekTy::U64 => $s.try_current_pos::<u64>().map(|v| v as u128).map_err(|_| ()),
            SeekTy::U128 => $s.try_current_pos::<u128>().map_err(|_| ()),
            SeekTy::Usize => $s.try_current_pos::<usize>().map(|v| v as u128).map_err(|_| ()),
        }
    };
}

macro_rules! impl_core {
    ($core:ident, $stream:ident, [$($seekb:tt)*], [$($cloneb:tt)*], seek=$seek:tt, clone=$clone:tt) => {
        impl<T> Core for $core<T>
        where
            T: StreamCipherCore + IvState + fmt::Debug + 'static $($seekb)* $($cloneb)*,
        {
            fn remaining_blocks(&self) -> Option<usize> {
                self.0.remaining_blocks()
            }
            fn apply_blocks(&mut self, k: Kind, inp: &[u8], out: &mut [u8]) -> R {
                match k {
                    Kind::InPlace => {
                        self.0.apply_keystream_blocks(blocks_mut(out));
                        Ok(())
                    }
                    Kind::Alias => {
                        self.0.apply_keystream_blocks_inout(InOutBuf::from(blocks_mut::<T::BlockSize>(out)));
                        Ok(())
                    }
                    Kind::B2b | Kind::InOut => match InOutBuf::new(blocks::<T::BlockSize>(inp), blocks_mut::<T::BlockSize>(out)) {
                        Ok(b) => {
                            self.0.apply_keystream_blocks_inout(b);
                            Ok(())
                        }
                        Err(_) => Err(()),
                    },
                }
            }
            fn apply_block(&mut self, k: Kind, inp: &[u8], out: &mut [u8]) {
                match k {
                    Kind::InPlace | Kind::Alias => self.0.apply_keystream_block_inout(InOut::from(blk_mut::<T::BlockSize>(out))),
                    Kind::B2b | Kind::InOut => self.0.apply_keystream_block_inout(InOut::from((blk::<T::BlockSize>(inp), blk_mut::<T::BlockSize>(out)))),
                }
            }
            fn write_block(&mut self, out: &mut [u8]) {
                self.0.write_keystream_block(blk_mut(out))
            }
            fn write_blocks(&mut self, out: &mut [u8]) {
                self.0.write_keystream_blocks(blocks_mut(out))
            }
            fn write_blocks_closure(&mut self, mode: u8, out: &mut [u8]) {
                self.0.process_with_backend(UserKeystream { blocks: blocks_mut::<T::BlockSize>(out), mode });
            }
            fn write_script(&mut self, script: &[u8], out: &mut [u8]) -> usize {
                let mut used = 0;
                self.0.process_with_backend(UserScript { blocks: blocks_mut::<T::BlockSize>(out), script, used: &mut used });
                used
            }
            fn partial(self: Box<Self>, k: Kind, inp: &[u8], out: &mut [u8]) -> R {
                match k {
                    Kind::InPlace | Kind::Alias => self.0.try_apply_keystream_partial(InOutBuf::from(out)).map_err(|_| ()),
                    Kind::B2b | Kind::InOut => match InOutBuf::new(inp, out) {
                        Ok(b) => self.0.try_apply_keystream_partial(b).map_err(|_| ()),
                        Err(_) => Err(()),
                    },
                }
            }
            fn get_block_pos(&self) -> Option<u128> {
                impl_core!(@getpos $seek self)
            }
            fn set_block_pos(&mut self, p: u128) -> bool {
                impl_core!(@setpos $seek self p)
            }
            fn iv_state(&self) -> Vec<u8> {
                self.0.iv_state().to_vec()
            }
            fn dup(&self) -> Option<Box<dyn Core>> {
                impl_core!(@dupcore $clone $core self)
            }
            fn as_any(&self) -> &dyn std::any::Any {
                self
            }
            fn clone_from_obj(&mut self, src: &dyn Core) -> bool {
                impl_core!(@clonefrom $clone self src)
            }
            fn debug(&self) -> String {
                format!("{:?}\n{:#?}", self.0, self.0)
            }
            fn into_stream(self: Box<Self>) -> Box<dyn Stream> {
                Box::new($stream(StreamCipherCoreWrapper::from_core(self.0)))
            }
            fn drop_scan(self: Box<Self>) -> (Vec<u8>, Vec<u8>) {
                drop_scan(self.0)
            }
        }
        impl<T> Stream for $stream<T>
        where
            T: StreamCipherCore + IvState + fmt::Debug + 'static $($seekb)* $($cloneb)*,
        {
            fn apply(&mut self, k: Kind, inp: &[u8], out: &mut [u8]) -> R {
                match k {
                    Kind::InPlace => self.0.try_apply_keystream(out).map_err(|_| ()),
                    Kind::Alias => self.0.try_apply_keystream_inout(InOutBuf::from(out)).map_err(|_| ()),
                    Kind::B2b => self.0.apply_keystream_b2b(inp, out).map_err(|_| ()),
                    Kind::InOut => match InOutBuf::new(inp, out) {
                        Ok(b) => self.0.try_apply_keystream_inout(b).map_err(|_| ()),
                        Err(_) => Err(()),
                    },
                }
            }
            fn seek(&mut self, t: SeekTy, p: u128) -> Option<R> {
                impl_core!(@seek $seek self t p)
            }
            fn pos(&self, t: SeekTy) -> Option<Result<u128, ()>> {
                impl_core!(@pos $seek self t)
            }
            fn core_remaining(&self) -> Option<usize> {
                self.0.get_core().remaining_blocks()
            }
            fn core_block_pos(&self) -> Option<u128> {
                impl_core!(@getpos_w $seek self)
            }
            fn core_iv_state(&self) -> Vec<u8> {
                self.0.get_core().iv_state().to_vec()
            }
            fn dup(&self) -> Option<Box<dyn Stream>> {
                impl_core!(@dupstream $clone $stream self)
            }
            fn as_any(&self) -> &dyn std::any::Any {
                self
            }
            fn clone_from_obj(&mut self, src: &dyn Stream) -> bool {
                impl_core!(@clonefrom $clone self src)
            }
            fn debug(&self) -> String {
                format!("{:?}\n{:#?}", self.0, self.0)
            }
            fn drop_scan(self: Box<Self>) -> (Vec<u8>, Vec<u8>) {
                drop_scan(self.0)
            }
        }
    };
    (@getpos yes $s:ident) => { $s.0.get_block_pos().try_into().ok() };
    (@getpos no $s:ident) => { None };
    (@getpos_w yes $s:ident) => { $s.0.get_core().get_block_pos().try_into().ok() };
    (@getpos_w no $s:ident) => { None };
    (@setpos yes $s:ident $p:ident) => { match T::Counter::try_from($p) { Ok(v) => { $s.0.set_block_pos(v); true } Err(_) => false } };
    (@setpos no $s:ident $p:ident) => {{ let _ = $p; false }};
    (@seek yes $s:ident $t:ident $p:ident) => { seek_dispatch!($s.0, $t, $p) };
    (@seek no $s:ident $t:ident $p:ident) => {{ let _ = ($t, $p); None }};
    (@pos yes $s:ident $t:ident) => { Some(pos_dispatch!($s.0, $t)) };
    (@pos no $s:ident $t:ident) => {{ let _ = $t; None }};
    (@clonefrom yes $s:ident $src:ident) => { match $src.as_any().downcast_ref::<Self>() { Some(o) => { $s.0.clone_from(&o.0); true } None => false } };
    (@clonefrom no $s:ident $src:ident) => {{ let _ = $src; false }};
    (@dupcore yes $core:ident $s:ident) => { Some(Box::new($core($s.0.clone()))) };
    (@dupcore no $core:ident $s:ident) => { None };
    (@dupstream yes $stream:ident $s:ident) => { Some(Box::new($stream($s.0.clone()))) };
    (@dupstream no $stream:ident $s:ident) => { None };
}
impl_core!(CoreSC, StreamSC, [+ StreamCipherSeekCore], [+ Clone], seek = yes, clone = yes);
impl_core!(CoreC, StreamC, [], [+ Clone], seek = no, clone = yes);
impl_core!(CoreS, StreamS, [+ StreamCipherSeekCore], [], seek = yes, clone = no);

macro_rules! core_maker {
    ($f:ident, $fs:ident, $core:ident, $stream:ident, [$($b:tt)*]) => {
        pub fn $f<T>(ctor: Ctor, key: &[u8], iv: &[u8]) -> Result<Box<dyn Core>, ()>
        where
            T: StreamCipherCore + IvState + fmt::Debug + InnerIvInit + 'static $($b)*,
            T::Inner: KeyInit,
        {
            Ok(Box::new($core(construct_iv::<T>(ctor, key, iv)?)))
        }
        /// the byte-level alias constructed directly through the wrapper's own `KeyIvInit`
        pub fn $fs<T>(ctor: Ctor, key: &[u8], iv: &[u8]) -> Result<Box<dyn Stream>, ()>
        where
            T: StreamCipherCore + IvState + fmt::Debug + InnerIvInit + 'static $($b)*,
            T::Inner: KeyInit,
        {
            let w: StreamCipherCoreWrapper<T> = match ctor {
                Ctor::Inner | Ctor::InnerSlice => StreamCipherCoreWrapper::from_core(construct_iv::<T>(ctor, key, iv)?),
                Ctor::KeyIv => {
                    let key: &Key<StreamCipherCoreWrapper<T>> = key.try_into().map_err(|_| ())?;
                    let iv: &Iv<StreamCipherCoreWrapper<T>> = iv.try_into().map_err(|_| ())?;
                    <StreamCipherCoreWrapper<T> as KeyIvInit>::new(key, iv)
                }
                Ctor::Slices => <StreamCipherCoreWrapper<T> as KeyIvInit>::new_from_slices(key, iv).map_err(|_| ())?,
            };
            Ok(Box::new($stream(w)))
        }
    };
}
core_maker!(make_core_sc, make_stream_sc, CoreSC, StreamSC, [+ StreamCipherSeekCore + Clone]);
core_maker!(make_core_c, make_stream_c, CoreC, StreamC, [+ Clone]);
core_maker!(make_core_s, make_stream_s, CoreS, StreamS, [+ StreamCipherSeekCore]);

// ---------------------------------------------------------------------------------------------
// buffered CFB

pub struct BufEncAd<C: cipher::BlockCipherEncrypt>(pub cfb_mode::BufEncryptor<C>);
pub struct BufDecAd<C: cipher::BlockCipherEncrypt>(pub cfb_mode::BufDecryptor<C>);

macro_rules! impl_buf {
    ($ad:ident, $ty:ident, $m:ident) => {
        impl<C> BufCfb for $ad<C>
        where
            C: cipher::BlockCipherEncrypt + AlgorithmName + Clone + 'static,
        {
            fn process(&mut self, data: &mut [u8]) {
                self.0.$m(data)
            }
            fn get_state(&self) -> (Vec<u8>, usize) {
                let (b, p) = self.0.get_state();
                (b.to_vec(), p)
            }
            fn dup(&self) -> Box<dyn BufCfb> {
                Box::new($ad(self.0.clone()))
            }
            fn as_any(&self) -> &dyn std::any::Any {
                self
            }
            fn clone_from_obj(&mut self, src: &dyn BufCfb) -> bool {
                match src.as_any().downcast_ref::<Self>() {
                    Some(s) => {
                        self.0.clone_from(&s.0);
                        true
                    }
                    None => false,
                }
            }
            fn debug(&self) -> String {
                format!("{:?}\n{:#?}", self.0, self.0)
            }
            fn drop_scan(self: Box<Self>) -> (Vec<u8>, Vec<u8>) {
                drop_scan(self.0)
            }
        }
        impl<C> $ad<C>
        where
            C: cipher::BlockCipherEncrypt + AlgorithmName + Clone + KeyInit + 'static,
        {
            pub fn make(ctor: Ctor, key: &[u8], iv: &[u8]) -> Result<Box<dyn BufCfb>, ()> {
                Ok(Box::new($ad(construct_iv::<cfb_mode::$ty<C>>(ctor, key, iv)?)))
            }
            pub fn from_state(key: &[u8], block: &[u8], pos: usize) -> Box<dyn BufCfb> {
                let c = C::new_from_slice(key).expect("adapter: key length");
                let b: &Block<C> = block.try_into().expect("adapter: state block length");
                Box::new($ad(cfb_mode::$ty::<C>::from_state(c, b, pos)))
            }
        }
    };
}
impl_buf!(BufEncAd, BufEncryptor, encrypt);
impl_buf!(BufDecAd, BufDecryptor, decrypt);

// ---------------------------------------------------------------------------------------------
// ciphertext stealing

fn cts_go<M>(m: M, clone_first: bool, dir: Dir, k: Kind, inp: &[u8], out: &mut [u8]) -> R
where
    M: cts::Encrypt + cts::Decrypt + Clone,
{
    let m = if clone_first {
        let c = m.clone();
        drop(m);
        c
    } else {
        m
    };
    match (dir, k) {
        (Dir::Enc, Kind::InPlace) => cts::Encrypt::encrypt(m, out).map_err(|_| ()),
        (Dir::Enc, Kind::Alias) => cts::Encrypt::encrypt_inout(m, InOutBuf::from(out)).map_err(|_| ()),
        (Dir::Enc, Kind::B2b) => cts::Encrypt::encrypt_b2b(m, inp, out).map_err(|_| ()),
        (Dir::Enc, Kind::InOut) => match InOutBuf::new(inp, out) {
            Ok(b) => cts::Encrypt::encrypt_inout(m, b).map_err(|_| ()),
            Err(_) => Err(()),
        },
        (Dir::Dec, Kind::InPlace) => cts::Decrypt::decrypt(m, out).map_err(|_| ()),
        (Dir::Dec, Kind::Alias) => cts::Decrypt::decrypt_inout(m, InOutBuf::from(out)).map_err(|_| ()),
        (Dir::Dec, Kind::B2b) => cts::Decrypt::decrypt_b2b(m, inp, out).map_err(|_| ()),
        (Dir::Dec, Kind::InOut) => match InOutBuf::new(inp, out) {
            Ok(b) => cts::Decrypt::decrypt_inout(m, b).map_err(|_| ()),
            Err(_) => Err(()),
        },
    }
}
pub fn cts_run_iv<M>(ctor: Ctor, clone_first: bool, dir: Dir, k: Kind, key: &[u8], iv: &[u8], inp: &[u8], out: &mut [u8]) -> Result<R, ()>
where
    M: cts::Encrypt + cts::Decrypt + Clone + InnerIvInit,
    M::Inner: KeyInit,
{
    let m = construct_iv::<M>(ctor, key, iv)?;
    Ok(cts_go(m, clone_first, dir, k, inp, out))
}
pub fn cts_run_noiv<M>(ctor: Ctor, clone_first: bool, dir: Dir, k: Kind, key: &[u8], _iv: &[u8], inp: &[u8], out: &mut [u8]) -> Result<R, ()>
where
    M: cts::Encrypt + cts::Decrypt + Clone + InnerInit,
    M::Inner: KeyInit,
{
    let m = construct_noiv::<M>(ctor, key)?;
    Ok(cts_go(m, clone_first, dir, k, inp, out))
}

pub fn _unused<M: InnerUser + BlockSizeUser>() {}
